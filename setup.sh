#!/bin/sh
# Offline setup: warm the Kani and native build caches of the dependencies (optional; every check
# rebuilds what it needs from /repo's working tree anyway).
set -e
cd "$(dirname "$0")"
python3 tools/warm.py || true
