//! Contracts for `util.rs`.
use super::*;
use crate::__verif::h::*;

/// O1: for non-NaN arguments `ord` is `partial_cmp` and never reaches `unreachable!`.
pub(crate) fn pre_ord(f1: f32, f2: f32) -> bool {
    !f1.is_nan() && !f2.is_nan()
}
pub(crate) fn post_ord(f1: f32, f2: f32, r: Ordering) -> bool {
    (r == Ordering::Equal) == (f1 == f2)
        && (r == Ordering::Less) == (f1 < f2)
        && (r == Ordering::Greater) == (f1 > f2)
}

pub(crate) fn pre_opt_ord(f1: Option<f32>, f2: Option<f32>) -> bool {
    f1.map_or(true, |v| !v.is_nan()) && f2.map_or(true, |v| !v.is_nan())
}
pub(crate) fn post_opt_ord(f1: Option<f32>, f2: Option<f32>, r: Ordering) -> bool {
    match (f1, f2) {
        (None, None) => r == Ordering::Equal,
        (Some(_), None) => r == Ordering::Greater,
        (None, Some(_)) => r == Ordering::Less,
        (Some(a), Some(b)) => post_ord(a, b, r),
    }
}

/// `pad` rounds away from zero to an integer; finite in, integer out, |r| >= |v|, |r - v| < 1
pub(crate) fn post_pad(v: f32, r: f32) -> bool {
    r == r.trunc() && r.abs() >= v.abs() && (r - v).abs() <= 1.0 && (v == 0.0 || (r > 0.0) == (v > 0.0))
}

// ---- C09 S2: collinearity on the lattice -------------------------------------------------------

/// twice the signed area, exact on the reduced lattice (all products below 2^24)
pub(crate) fn cross2(a: &Point, b: &Point, c: &Point) -> f32 {
    (b.x - a.x) * (c.y - a.y) - (b.y - a.y) * (c.x - a.x)
}

#[cfg(kani)]
pub(crate) mod k {
    use super::*;
    use crate::__verif::kh::*;

    #[kani::proof]
    pub(crate) fn check_ord() {
        let f1: f32 = kani::any();
        let f2: f32 = kani::any();
        kani::assume(pre_ord(f1, f2));
        kani::cover!(true);
        let r = ord(f1, f2);
        assert!(post_ord(f1, f2, r), "post_ord");
    }

    #[kani::proof]
    pub(crate) fn check_opt_ord() {
        let f1: Option<f32> = kani::any();
        let f2: Option<f32> = kani::any();
        kani::assume(pre_opt_ord(f1, f2));
        kani::cover!(true);
        let r = opt_ord(f1, f2);
        assert!(post_opt_ord(f1, f2, r), "post_opt_ord");
    }

    #[kani::proof]
    pub(crate) fn check_pad() {
        let v: f32 = kani::any();
        kani::assume(finite_bounded(v));
        kani::cover!(true);
        let r = pad(v);
        assert!(post_pad(v, r), "post_pad");
    }

    /// identifier grammar character classes (C08): an accepted character is never
    /// markup-significant, whitespace, `=` or `/` - for every `char`.
    #[kani::proof]
    pub(crate) fn check_ident_char_classes() {
        let c: char = kani::any();
        kani::cover!(true);
        let accepted = parser::alpha_or_underscore(c) || parser::alphanum_or_underscore(c);
        if accepted {
            assert!(
                !matches!(c, '<' | '>' | '&' | '"' | '\'' | ' ' | '=' | '/' | '\t' | '\n' | '\r' | '{' | '}' | ','),
                "ident chars are not markup significant"
            );
            assert!(xml_char(c), "ident chars are XML chars");
        }
        // the first character of an identifier is never a digit
        if parser::alpha_or_underscore(c) && (c as u32) < 0x80 {
            assert!(!c.is_ascii_digit(), "ident does not start with a digit");
        }
        // plain letters, digits and underscore are accepted (completeness over ASCII)
        if c.is_ascii_alphabetic() || c == '_' {
            assert!(parser::alpha_or_underscore(c), "ascii letters accepted");
        }
        if c.is_ascii_alphanumeric() || c == '_' {
            assert!(parser::alphanum_or_underscore(c), "ascii alphanumerics accepted");
        }
    }
}

#[cfg(all(svgbob_verif, test))]
pub(crate) mod b {
    use super::*;
    use crate::buffer::{Cell, CellBuffer, StringBuffer};

    fn thorough() -> bool {
        std::env::var("VERIF_TIER").map(|v| v == "thorough").unwrap_or(false)
    }

    /// C16: legend grammar - header, newline separated `ident = {css}` entries, trailing blanks
    #[test]
    fn bounded_legend_grammar() {
        let idents = ["a", "b1", "_x", "Zz9"];
        let decls = ["", "f", "fill:red;", "a:b;\nc:d", "q\"'<", " "];
        let headers = ["# Legend:", "#Legend:", " # Legend:", "#  Legend: "];
        let trailers = ["", "\n", "\n\n  \n", " \t\n"];
        let seps = [" = ", "=", "  =", "= "];
        let mut n = 0u64;
        for header in headers {
            for k in 1..=3usize {
                for i in 0..idents.len() {
                    for j in 0..decls.len() {
                        for sep in seps {
                            for trailer in trailers {
                                let entries: Vec<(String, String)> =
                                    (0..k).map(|e| (idents[(i + e) % 4].to_string(), decls[(j + e) % 6].to_string())).collect();
                                // entries on consecutive lines, or with empty / blank lines (also after the header) in between
                                for joiner in ["\n", "\n\n", "\n \t\n"] {
                                    let body = entries.iter().map(|(c, d)| format!("{}{}{{{}}}", c, sep, d)).collect::<Vec<_>>().join(joiner);
                                    let text = format!("{}{}{}{}", header, joiner, body, trailer);
                                    let got = parser::parse_css_legend(&text);
                                    if got.as_ref().ok() != Some(&entries) {
                                        println!("BOUNDED-WITNESS legend {:?} parsed as {:?}", text, got);
                                        panic!("legend entries in order");
                                    }
                                    n += 1;
                                }
                            }
                        }
                    }
                }
            }
        }
        // malformed legends: the grammar must answer (Ok or Err) without panicking; whether the text is then
        // cut off is CellBuffer::from's business (C16 only speaks about well-formed entries)
        for bad in ["# Legend:\na = {x{y}}", "# Legend:\na {x}", "# Legend:\n1a = {x}", "# Legend:\na = {x}\nrest", "Legend:\na = {x}", "# Legend:"] {
            let _ = parser::parse_css_legend(bad);
            n += 1;
        }
        println!("BOUNDED-CASES {}", n);
    }

    /// C16: tag grammar '{ident(,ident)*}'
    #[test]
    fn bounded_tag_grammar() {
        let mut n = 0u64;
        let ok: [(&str, &[&str]); 5] = [("{a}", &["a"]), ("{a,b}", &["a", "b"]), ("{_x1,Y,z_}", &["_x1", "Y", "z_"]), ("{a1}", &["a1"]), ("{A}", &["A"])];
        for (t, want) in ok {
            let got = parser::parse_css_tag(t);
            if got.as_ref().ok().map(|v| v.iter().map(|s| s.as_str()).collect::<Vec<_>>()) != Some(want.to_vec()) {
                println!("BOUNDED-WITNESS tag {:?} parsed as {:?}", t, got);
                panic!("tag names");
            }
            n += 1;
        }
        // a text that merely starts with a tag is a label too ("{a}bc" in a box must not lose "bc")
        for bad in ["", "a", "{a", "a}", "{}", "{a,}", "{,a}", "{a b}", "{1a}", "{a-b}", "{a}{b}x", "{a}bc", "{a} ", " {a}", "{a}}", "{*}", "{<a>}"] {
            if parser::parse_css_tag(bad).map(|v| !v.is_empty()).unwrap_or(false) {
                println!("BOUNDED-WITNESS malformed tag accepted: {:?} -> {:?}", bad, parser::parse_css_tag(bad));
                panic!("malformed tag is text");
            }
            n += 1;
        }
        println!("BOUNDED-CASES {}", n);
    }

}
