//! Contracts for `merge.rs`: the fix-point clause of M2 on an abstract item type (bounded stand-in);
//! the unbounded termination / length clauses are the Verus unit `merge`.
use super::*;

#[cfg(all(svgbob_verif, test))]
pub(crate) mod b {
    use super::*;
    use std::cell::RefCell;

    thread_local! {
        /// whether and into what two abstract items merge: an arbitrary table (3 = does not merge)
        static TABLE: RefCell<[[u8; 3]; 3]> = RefCell::new([[3; 3]; 3]);
    }

    #[derive(Clone, Debug, PartialEq)]
    struct It(u8);

    impl Merge for It {
        fn merge(&self, other: &Self) -> Option<Self> {
            let v = TABLE.with(|t| t.borrow()[self.0 as usize][other.0 as usize]);
            if v < 3 {
                Some(It(v))
            } else {
                None
            }
        }
    }

    /// M2 fix-point (bounded stand-in): after merge_recursive no earlier item merges with a later one;
    /// unmergeable items are kept in order; 1 <= len <= input len
    #[test]
    fn bounded_merge_recursive_fixpoint() {
        let mut n = 0u64;
        for code in 0..4u32.pow(9) {
            let mut t = [[3u8; 3]; 3];
            let mut c = code;
            for i in 0..3 {
                for j in 0..3 {
                    t[i][j] = (c % 4) as u8;
                    c /= 4;
                }
            }
            TABLE.with(|x| *x.borrow_mut() = t);
            for ids in [[0u8, 1, 2], [0, 0, 1], [2, 1, 0], [1, 1, 1], [0, 2, 0]] {
                for len in [3usize, 4] {
                    let mut items: Vec<It> = ids.iter().map(|i| It(*i)).collect();
                    if len == 4 {
                        items.push(It(ids[0]));
                    }
                    let r = It::merge_recursive(items.clone());
                    let mut ok = !r.is_empty() && r.len() <= items.len();
                    for i in 0..r.len() {
                        for j in 0..i {
                            ok = ok && r[j].merge(&r[i]).is_none();
                        }
                    }
                    let none_merge = (0..items.len()).all(|i| (0..i).all(|j| items[j].merge(&items[i]).is_none()));
                    if none_merge {
                        ok = ok && r == items;
                    }
                    if !ok {
                        println!("BOUNDED-WITNESS merge table {:?} items {:?}: result {:?}", t, items, r);
                        panic!("merge_recursive reaches a fix-point and loses nothing");
                    }
                    n += 1;
                }
            }
        }
        println!("BOUNDED-CASES {}", n);
    }
}
