//! Contracts for `map/circle_map.rs` (C13).
use super::*;
use crate::__verif::h::*;

/// every arc drawing of the three arc catalogues (quarter, half, three quarters), as localized spans
#[cfg(svgbob_verif)]
pub(crate) fn arc_catalogue_spans() -> Vec<(&'static str, Span)> {
    let mut out = vec![];
    for (name, table) in [("quarter", &*QUARTER_ARC_SPAN), ("half", &*HALF_ARC_SPAN), ("three_quarters", &*THREE_QUARTERS_ARC_SPAN)] {
        for arcs in table.values() {
            for (_arc, span) in arcs.arc_spans.iter() {
                out.push((name, span.clone()));
            }
        }
    }
    out
}

/// the catalogue of circle drawings (private static of the parent module)
#[cfg(svgbob_verif)]
pub(crate) fn catalogue() -> &'static Vec<(&'static str, Horizontal, f32, f32, Cell)> {
    &CIRCLE_ART_MAP
}

#[cfg(kani)]
pub(crate) mod k {
    use super::*;
    use crate::__verif::kg::*;

    pub(crate) static mut WIDTH: f32 = 0.0;
    pub(crate) fn stub_width(_a: &CircleArt) -> f32 {
        unsafe { WIDTH }
    }

    fn any_art() -> CircleArt {
        let half: bool = kani::any();
        // offsets are multiples of 0.5 (cells from the left / top edge of the art to the centre)
        let ox2: u16 = kani::any();
        let oy2: u16 = kani::any();
        kani::assume(ox2 <= 256 && oy2 <= 256);
        CircleArt {
            ascii_art: "",
            start_edge: if half { Horizontal::Half } else { Horizontal::LeftEdge },
            offset_center_x: ox2 as f32 * 0.5,
            offset_center_y: oy2 as f32 * 0.5,
        }
    }

    /// Q1: radius / centre / extent / diameter for every width 1..=128 and both edge cases
    #[kani::proof]
    #[kani::stub(crate::map::circle_map::CircleArt::width, stub_width)]
    pub(crate) fn check_circle_art_geometry() {
        let art = any_art();
        let w: u16 = kani::any();
        kani::assume(w >= 1 && w <= 128);
        unsafe { WIDTH = w as f32 };
        kani::cover!(true);
        let wf = w as f32;
        let inc = match art.start_edge {
            Horizontal::LeftEdge => 0.0,
            Horizontal::Half => 0.5,
        };
        assert!(art.edge_increment_x() == inc, "edge increment: 0 flush with a slash, 0.5 otherwise");
        let r = art.radius();
        assert!(r == wf / 2.0, "radius = width / 2");
        let c = art.center();
        assert!(c.x - r == inc && c.x + r == wf + inc, "horizontal extent = the drawing's extent [inc, width + inc]");
        assert!(c.y == art.offset_center_y * 2.0, "centre height from the documented offset (cells are 2 units tall)");
        assert!(art.diameter() == w as i32, "diameter = width");
    }

    /// Q2: width() = number of columns of the art (- 1 unless it starts flush with a slash)
    pub(crate) static mut CB_BOUNDS: Option<((i32, i32), (i32, i32))> = None;
    pub(crate) fn stub_cb_bounds(_cb: &CellBuffer) -> Option<(Cell, Cell)> {
        unsafe { CB_BOUNDS.map(|(a, b)| (Cell::new(a.0, a.1), Cell::new(b.0, b.1))) }
    }
    pub(crate) fn stub_cb_from<'a>(_s: &'a str) -> CellBuffer {
        CellBuffer::new()
    }

    #[kani::proof]
    #[kani::stub(crate::buffer::cell_buffer::CellBuffer::bounds, stub_cb_bounds)]
    #[kani::unwind(24)]
    pub(crate) fn check_circle_art_width() {
        let art = any_art();
        let lo: (i32, i32) = kani::any();
        let hi: (i32, i32) = kani::any();
        kani::assume(lo.0 >= 0 && lo.1 >= 0 && lo.0 <= hi.0 && lo.1 <= hi.1 && hi.0 < 4096 && hi.1 < 4096);
        unsafe { CB_BOUNDS = Some((lo, hi)) };
        kani::cover!(true);
        let n = hi.0 - lo.0 + 1; // cells the drawing is wide
        let w = art.width();
        match art.start_edge {
            Horizontal::Half => assert!(w == (n - 1) as f32, "n cells wide, half a cell of margin on both sides: width n-1, radius (n-1)/2"),
            Horizontal::LeftEdge => assert!(w == n as f32, "flush with a slash: width n, radius n/2"),
        }
    }

    /// Q3: is_subset_of on short lists: matched <=> every element of subset is in big_set;
    /// unmatched = ascending indices of the big_set elements that are not in subset
    #[kani::proof]
    #[kani::unwind(5)]
    pub(crate) fn check_is_subset_of() {
        let sub: [u8; 3] = kani::any();
        let big: [u8; 3] = kani::any();
        let ns: usize = kani::any();
        let nb: usize = kani::any();
        // quick tier: lists of length <= 2; thorough: <= 3
        let lim = if crate::__verif::THOROUGH { 3 } else { 2 };
        kani::assume(ns <= lim && nb <= lim);
        kani::assume(sub[0] < 4 && sub[1] < 4 && sub[2] < 4 && big[0] < 4 && big[1] < 4 && big[2] < 4);
        kani::cover!(true);
        let (m, un) = is_subset_of(&sub[..ns], &big[..nb]);
        let mut all_in = true;
        let mut i = 0;
        while i < 3 {
            if i < ns {
                let mut found = false;
                let mut j = 0;
                while j < 3 {
                    if j < nb && big[j] == sub[i] {
                        found = true;
                    }
                    j += 1;
                }
                all_in = all_in && found;
            }
            i += 1;
        }
        assert!(m == all_in, "matched <=> subset is contained in big_set");
        let mut k = 0;
        let mut j = 0;
        while j < 3 {
            if j < nb {
                let mut found = false;
                let mut i = 0;
                while i < 3 {
                    if i < ns && sub[i] == big[j] {
                        found = true;
                    }
                    i += 1;
                }
                if !found {
                    assert!(k < un.len() && un[k] == j, "unmatched lists the indices of the extra elements in ascending order");
                    k += 1;
                }
            }
            j += 1;
        }
        assert!(un.len() == k, "and nothing else");
    }
}

#[cfg(all(svgbob_verif, test))]
pub(crate) mod b {
    use super::*;
    use crate::buffer::Span;
    use crate::Fragment;

    fn thorough() -> bool {
        std::env::var("VERIF_TIER").map(|v| v == "thorough").unwrap_or(false)
    }

    /// the art placed `dx` columns to the right and `dy` rows down, indentation removed
    fn place(art: &str, dx: usize, dy: usize) -> String {
        let lines: Vec<&str> = art.lines().filter(|l| !l.trim().is_empty()).collect();
        let indent = lines.iter().map(|l| l.len() - l.trim_start().len()).min().unwrap_or(0);
        let mut s = "\n".repeat(dy);
        for l in lines {
            s.push_str(&" ".repeat(dx));
            s.push_str(l[indent..].trim_end());
            s.push('\n');
        }
        s
    }

    /// Q4 - Q6: every catalogue drawing, anywhere, is endorsed as exactly one circle and nothing
    /// else; radius, extent and proximity as the statement says
    #[test]
    fn bounded_catalogue_circles() {
        let (mx, my) = if thorough() { (60, 40) } else { (6, 4) };
        let mut n = 0u64;
        assert!(CIRCLE_ART_MAP.len() == 22, "22 catalogued sizes");
        for (idx, (art, edge, _ox, _oy, _c)) in CIRCLE_ART_MAP.iter().enumerate() {
            for dx in 0..mx {
                for dy in 0..my {
                    for extra in [false, true] {
                        let mut text = place(art, dx, dy);
                        if extra {
                            // unrelated content far below the drawing
                            text.push_str("\n\n\n     some text\n");
                        }
                        let cb = CellBuffer::from(text.as_str());
                        let spans: Vec<Span> = Vec::<Span>::from(&cb);
                        let fail = |why: &str| {
                            println!("BOUNDED-WITNESS catalogue circle #{} at offset ({},{}) extra={}: {}", idx, dx, dy, extra, why);
                            panic!("catalogue circle contract");
                        };
                        // the drawing is the span whose first row is dy
                        let span = spans.iter().find(|s| s.iter().any(|(c, _)| c.y == dy as i32)).cloned();
                        let Some(span) = span else { fail("drawing not found"); unreachable!() };
                        let cols: Vec<i32> = span.iter().map(|(c, _)| c.x).collect();
                        let (l, r) = (*cols.iter().min().unwrap(), *cols.iter().max().unwrap());
                        let ncells = (r - l + 1) as f32;
                        let cells: Vec<(Cell, char)> = span.iter().cloned().collect();
                        let e = span.endorse();
                        if e.accepted.len() != 1 || !e.rejects.iter().all(|s| s.is_empty()) {
                            fail(&format!("{} fragments accepted, {} rejected spans", e.accepted.len(), e.rejects.len()));
                        }
                        let Fragment::Circle(c) = &e.accepted[0].fragment else { fail("not a circle"); unreachable!() };
                        let (want_r, lo, hi) = match edge {
                            Horizontal::Half => ((ncells - 1.0) / 2.0, l as f32 + 0.5, r as f32 + 0.5),
                            Horizontal::LeftEdge => (ncells / 2.0, l as f32, r as f32 + 1.0),
                        };
                        if c.radius != want_r || c.center.x - c.radius != lo || c.center.x + c.radius != hi {
                            fail(&format!("radius {} (want {}), extent [{}, {}] (want [{}, {}])", c.radius, want_r,
                                c.center.x - c.radius, c.center.x + c.radius, lo, hi));
                        }
                        for (cell, ch) in &cells {
                            let m = cell.m();
                            let d = ((m.x - c.center.x).powi(2) + (m.y - c.center.y).powi(2)).sqrt();
                            if (d - c.radius).abs() > 2.5 {
                                fail(&format!("character {:?} at {} is {} away from the circle", ch, cell, (d - c.radius).abs()));
                            }
                        }
                        n += 1;
                    }
                }
            }
        }
        println!("BOUNDED-CASES {}", n);
    }

    /// C01: the asserts / expects inside the lazily built tables do not depend on the input: one
    /// forced initialisation of every table decides them
    #[test]
    fn bounded_lazy_tables_init() {
        let n = crate::map::ASCII_PROPERTIES.len()
            + crate::map::UNICODE_FRAGMENTS.len()
            + crate::map::FRAGMENTS_UNICODE.len()
            + crate::map::UNICODE_PROPERTIES.len()
            + CIRCLE_MAP.len()
            + FRAGMENTS_CIRCLE.len()
            + DIAMETER_CIRCLE.len()
            + CIRCLES_SPAN.len()
            + QUARTER_ARC_SPAN.len()
            + HALF_ARC_SPAN.len()
            + THREE_QUARTERS_ARC_SPAN.len()
            + FLATTENED_QUARTER_ARC_SPAN.len()
            + FLATTENED_HALF_ARC_SPAN.len()
            + FLATTENED_THREE_QUARTERS_ARC_SPAN.len();
        assert!(n > 100, "tables are populated");
        println!("BOUNDED-CASES {}", n);
    }
}
