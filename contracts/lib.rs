//! Injected at the crate root (`lib.rs`): helpers shared by all contract modules, the validity
//! predicates of DESIGN.md section 2.3, and the entry-point contracts of C18.
use super::*;

/// compile-time tier switch (set by the driver through the environment)
pub(crate) const THOROUGH: bool = option_env!("VERIF_THOROUGH").is_some();

pub(crate) mod h {
    //! helpers: everything here is loop-bounded by a constant so that CBMC never has to unwind a
    //! loop over a symbolic length (std `==` on slices calls `memcmp` with a symbolic length).
    use crate::{Cell, Point};

    /// byte-wise equality of two short strings (both at most `N` bytes, else false)
    pub(crate) fn str_eq_n<const N: usize>(a: &str, b: &str) -> bool {
        let a = a.as_bytes();
        let b = b.as_bytes();
        if a.len() != b.len() || a.len() > N {
            return false;
        }
        let mut i = 0;
        while i < N {
            if i < a.len() && a[i] != b[i] {
                return false;
            }
            i += 1;
        }
        true
    }

    /// `s` is exactly the UTF-8 encoding of `c`
    pub(crate) fn str_is_char(s: &str, c: char) -> bool {
        let mut b = [0u8; 4];
        let e: &str = c.encode_utf8(&mut b);
        str_eq_n::<4>(s, e)
    }

    /// XML 1.0 `Char` production.
    pub(crate) fn xml_char(c: char) -> bool {
        let u = c as u32;
        u == 0x9
            || u == 0xA
            || u == 0xD
            || (0x20..=0xD7FF).contains(&u)
            || (0xE000..=0xFFFD).contains(&u)
            || (0x10000..=0x10FFFF).contains(&u)
    }

    pub(crate) fn markup_significant(c: char) -> bool {
        matches!(c, '<' | '>' | '&' | '\'' | '"')
    }

    // ---- validity predicates (type invariants used as preconditions) -----------------------

    /// quarter-cell lattice coordinate `i/4`, `0 <= i < 2^20`, exactly representable
    pub(crate) fn grid_coord(v: f32) -> bool {
        v >= 0.0 && v < 262144.0 && (v * 4.0) == (v * 4.0).trunc()
    }

    /// same lattice but on a reduced range (quick tier of sqrt-based obligations)
    pub(crate) fn grid_coord_lt(v: f32, lim: f32) -> bool {
        v >= 0.0 && v < lim && (v * 4.0) == (v * 4.0).trunc()
    }

    pub(crate) fn grid(p: Point) -> bool {
        grid_coord(p.x) && grid_coord(p.y)
    }

    pub(crate) fn grid_lt(p: Point, lim: f32) -> bool {
        grid_coord_lt(p.x, lim) && grid_coord_lt(p.y, lim)
    }

    /// |v| <= 2^24 and not NaN
    pub(crate) fn finite_bounded(v: f32) -> bool {
        v >= -16777216.0 && v <= 16777216.0
    }

    pub(crate) fn fb_point(p: Point) -> bool {
        finite_bounded(p.x) && finite_bounded(p.y)
    }

    /// scales covered by the proofs: 2^-10 ..= 2^10
    pub(crate) fn valid_scale(s: f32) -> bool {
        s >= 0.0009765625 && s <= 1024.0
    }

    /// cells of diagrams up to 131072 columns / rows
    pub(crate) fn valid_cell(c: Cell) -> bool {
        c.x >= 0 && c.x < 131072 && c.y >= 0 && c.y < 131072
    }

    /// bit-identical points (stronger than `==`, which goes through `util::ord`)
    pub(crate) fn same_point(a: Point, b: Point) -> bool {
        a.x.to_bits() == b.x.to_bits() && a.y.to_bits() == b.y.to_bits()
    }

    /// numerically equal points (0.0 == -0.0), no NaN
    pub(crate) fn eq_point(a: Point, b: Point) -> bool {
        a.x == b.x && a.y == b.y
    }
}

#[cfg(kani)]
pub(crate) mod kh {
    //! Kani-only helpers: symbolic values of the crate's types.
    use crate::{Cell, Point};

    pub(crate) fn any_point() -> Point {
        Point::new(kani::any(), kani::any())
    }

    pub(crate) fn any_cell() -> Cell {
        Cell::new(kani::any(), kani::any())
    }
}

#[cfg(kani)]
pub(crate) mod kg {
    //! generators of symbolic values of the fragment types (all inputs are drawn up-front, so that
    //! concrete playback feeds the same values natively)
    use super::h::*;
    use crate::fragment::{Arc, Circle, Line, Marker, MarkerLine, Rect};
    use crate::{Cell, Point};

    pub(crate) fn any_point() -> Point {
        Point::new(kani::any(), kani::any())
    }

    /// lattice point with quarter-unit indices below `lim4` (coordinate below lim4/4)
    pub(crate) fn any_grid_point(lim4: u32) -> Point {
        let i: u32 = kani::any();
        let j: u32 = kani::any();
        kani::assume(i < lim4 && j < lim4);
        Point::new(i as f32 * 0.25, j as f32 * 0.25)
    }

    pub(crate) fn any_line() -> Line {
        Line::new_noswap(any_point(), any_point(), kani::any())
    }

    pub(crate) fn any_grid_line(lim4: u32) -> Line {
        Line::new_noswap(any_grid_point(lim4), any_grid_point(lim4), kani::any())
    }

    pub(crate) fn any_circle() -> Circle {
        Circle::new(any_point(), kani::any(), kani::any())
    }

    pub(crate) fn any_marker() -> Option<Marker> {
        let k: u8 = kani::any();
        match k % 8 {
            0 => None,
            1 => Some(Marker::Arrow),
            2 => Some(Marker::ClearArrow),
            3 => Some(Marker::Circle),
            4 => Some(Marker::Square),
            5 => Some(Marker::Diamond),
            6 => Some(Marker::OpenCircle),
            _ => Some(Marker::BigOpenCircle),
        }
    }

    pub(crate) fn any_rect() -> Rect {
        Rect { start: any_point(), end: any_point(), is_filled: kani::any(), radius: kani::any(), is_broken: kani::any() }
    }

    pub(crate) fn any_arc() -> Arc {
        let mut a = Arc::new(Point::new(0.0, 0.0), Point::new(1.0, 1.0), 1.0);
        a.start = any_point();
        a.end = any_point();
        a.radius = kani::any();
        a.major_flag = kani::any();
        a.sweep_flag = kani::any();
        a
    }

    pub(crate) fn any_cell() -> Cell {
        Cell::new(kani::any(), kani::any())
    }

    pub(crate) fn any_valid_cell() -> Cell {
        let c = any_cell();
        kani::assume(valid_cell(c));
        c
    }
}
