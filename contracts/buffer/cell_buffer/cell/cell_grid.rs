//! Contracts for `buffer/cell_buffer/cell/cell_grid.rs`.
use super::*;
use crate::Point;

#[cfg(kani)]
pub(crate) mod k {
    use super::*;

    /// G1: CellGrid::point(x, y) = (x/4, y/4) exactly
    #[kani::proof]
    pub(crate) fn check_cellgrid_point() {
        let x: usize = kani::any();
        let y: usize = kani::any();
        kani::assume(x <= 4 && y <= 8);
        kani::cover!(true);
        let p = CellGrid::point(x, y);
        assert!(p.x == x as f32 * 0.25 && p.y == y as f32 * 0.25, "lattice point");
        assert!(CellGrid::unit_x() == 0.25 && CellGrid::unit_y() == 0.25, "unit = quarter");
        assert!(CellGrid::width() == 1.0 && CellGrid::height() == 2.0, "cell 1 x 2");
    }

    #[kani::proof]
    pub(crate) fn check_cellgrid_names() {
        kani::cover!(true);
        let pts = [CellGrid::a(), CellGrid::b(), CellGrid::c(), CellGrid::d(), CellGrid::e(),
                   CellGrid::f(), CellGrid::g(), CellGrid::h(), CellGrid::i(), CellGrid::j(),
                   CellGrid::k(), CellGrid::l(), CellGrid::m(), CellGrid::n(), CellGrid::o(),
                   CellGrid::p(), CellGrid::q(), CellGrid::r(), CellGrid::s(), CellGrid::t(),
                   CellGrid::u(), CellGrid::v(), CellGrid::w(), CellGrid::x(), CellGrid::y()];
        let mut i = 0;
        while i < 25 {
            assert!(pts[i].x == (i % 5) as f32 * 0.25 && pts[i].y == (i / 5) as f32 * 0.5, "named grid point");
            i += 1;
        }
        let d = CellGrid::diagonal_length();
        assert!(d > 2.236 && d < 2.2361, "diagonal = sqrt(5)");
    }
}
