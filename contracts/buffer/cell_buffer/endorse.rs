//! Contracts for `buffer/cell_buffer/endorse.rs` (C05, C03, C01).
use super::*;
use crate::__verif::h::*;
use crate::fragment::{Arc, Circle};
use crate::Point;

/// specification of `parallel_aabb_group`: the greedy matching in lexicographic order of (i, j)
/// over a `parallel` relation.  `rel(i, j)` is the relation on indices.
pub(crate) fn spec_greedy<F: Fn(usize, usize) -> bool>(n: usize, rel: F) -> ([(usize, usize); 4], usize) {
    let mut used = [false; 8];
    let mut out = [(0usize, 0usize); 4];
    let mut k = 0;
    let mut i = 0;
    while i < n {
        let mut j = 0;
        while j < n {
            if i != j && !used[i] && !used[j] && rel(i, j) {
                used[i] = true;
                used[j] = true;
                if k < 4 {
                    out[k] = (i, j);
                }
                k += 1;
            }
            j += 1;
        }
        i += 1;
    }
    (out, k)
}

/// the exact-sides predicate of R-S: the four lines are the four sides of the rectangle
/// (x0,y0)-(x1,y1): two horizontals spanning [x0,x1] at y0 and y1, two verticals spanning [y0,y1]
/// at x0 and x1 (in any order, each end point order).
pub(crate) fn is_side(l: &Line, x0: f32, y0: f32, x1: f32, y1: f32) -> u8 {
    let (sx, sy, ex, ey) = (l.start.x, l.start.y, l.end.x, l.end.y);
    let horiz = |y: f32| sy == y && ey == y && ((sx == x0 && ex == x1) || (sx == x1 && ex == x0));
    let vert = |x: f32| sx == x && ex == x && ((sy == y0 && ey == y1) || (sy == y1 && ey == y0));
    if horiz(y0) {
        1
    } else if horiz(y1) {
        2
    } else if vert(x0) {
        4
    } else if vert(x1) {
        8
    } else {
        0
    }
}

pub(crate) fn exact_four_sides(ls: [&Line; 4], x0: f32, y0: f32, x1: f32, y1: f32) -> bool {
    x0 < x1 && y0 < y1
        && (is_side(ls[0], x0, y0, x1, y1) | is_side(ls[1], x0, y0, x1, y1) | is_side(ls[2], x0, y0, x1, y1)
            | is_side(ls[3], x0, y0, x1, y1)) == 15
        && is_side(ls[0], x0, y0, x1, y1) != 0 && is_side(ls[1], x0, y0, x1, y1) != 0
        && is_side(ls[2], x0, y0, x1, y1) != 0 && is_side(ls[3], x0, y0, x1, y1) != 0
}

#[cfg(kani)]
pub(crate) mod k {
    use super::*;
    use crate::__verif::kg::*;

    const LIM4: u32 = if crate::__verif::THOROUGH { 1 << 12 } else { 1 << 8 };

    // ---- F-P: only lines are parallel; Line::is_aabb_parallel is what the statement says ---------
    #[kani::proof]
    #[kani::unwind(7)]
    pub(crate) fn check_fragment_is_aabb_parallel() {
        let a = any_line();
        let b = any_line();
        kani::assume(fb_point(a.start) && fb_point(a.end) && fb_point(b.start) && fb_point(b.end));
        kani::cover!(true);
        let horiz = |l: &Line| l.start.y == l.end.y;
        let vert = |l: &Line| l.start.x == l.end.x;
        let want = (horiz(&a) && horiz(&b) && a.start.x == b.start.x && a.end.x == b.end.x)
            || (vert(&a) && vert(&b) && a.start.y == b.start.y && a.end.y == b.end.y);
        let fa = Fragment::Line(a.clone());
        let fb = Fragment::Line(b.clone());
        assert!(fa.is_aabb_parallel(&fb) == want, "lines: both horizontal with equal x extent, or both vertical with equal y extent");
        assert!(a.is_aabb_perpendicular(&b) == ((horiz(&a) && vert(&b)) || (vert(&a) && horiz(&b))), "perpendicular = one horizontal, one vertical");
        // any pair involving a non-line is never parallel
        let others = [
            Fragment::Circle(Circle::new(a.start, 1.0, false)),
            Fragment::Arc(Arc::new(Point::new(0.0, 0.0), Point::new(1.0, 1.0), 1.0)),
            Fragment::Rect(crate::fragment::Rect::new(Point::new(0.0, 0.0), Point::new(1.0, 1.0), false, false)),
            Fragment::MarkerLine(crate::fragment::MarkerLine::new(a.start, a.end, false, None, None)),
        ];
        let mut i = 0;
        while i < 4 {
            assert!(!others[i].is_aabb_parallel(&fa) && !fa.is_aabb_parallel(&others[i]) && !others[i].is_aabb_parallel(&others[i]),
                "only lines can be parallel");
            i += 1;
        }
        assert!(fa.as_line().is_some() && others[0].as_line().is_none() && others[1].as_arc().is_some() && fa.as_arc().is_none(), "as_line / as_arc");
    }

    // ---- R-S: is_rect ------------------------------------------------------------------------------
    //
    // `is_rect` indexes the fragment slice with the indices returned by `parallel_aabb_group`.  A
    // symbolic index into a slice of references makes CBMC over-approximate (spurious failures),
    // so the harnesses split on the finitely many results the contract of `parallel_aabb_group`
    // (greedy matching, R-P) allows for 4 fragments: the three perfect matchings, or fewer than two
    // pairs.  The stub returns the *concrete* matching of the case, and the case is assumed to be
    // the greedy matching of the real relation.

    pub(crate) const MATCHINGS: [[(usize, usize); 2]; 3] = [[(0, 1), (2, 3)], [(0, 2), (1, 3)], [(0, 3), (1, 2)]];
    pub(crate) static mut CASE: u8 = 0;

    pub(crate) fn stub_parallel_aabb_group(_fragments: &[&Fragment]) -> Vec<(usize, usize)> {
        match unsafe { CASE } {
            0 => vec![(0, 1), (2, 3)],
            1 => vec![(0, 2), (1, 3)],
            2 => vec![(0, 3), (1, 2)],
            3 => vec![],
            _ => vec![(0, 1)],
        }
    }

    /// the case is the greedy matching of the real `is_aabb_parallel` relation on these fragments
    fn case_is_greedy(refs: &[&Fragment; 4], case: u8) -> bool {
        let (pairs, k) = spec_greedy(4, |i, j| refs[i].is_aabb_parallel(refs[j]));
        match case {
            0 | 1 | 2 => k == 2 && pairs[0] == MATCHINGS[case as usize][0] && pairs[1] == MATCHINGS[case as usize][1],
            3 => k == 0,
            _ => k == 1,
        }
    }

    fn bbox(ls: [&Line; 4]) -> (f32, f32, f32, f32) {
        let mut x0 = ls[0].start.x;
        let mut y0 = ls[0].start.y;
        let mut x1 = x0;
        let mut y1 = y0;
        let mut i = 0;
        while i < 4 {
            x0 = x0.min(ls[i].start.x).min(ls[i].end.x);
            y0 = y0.min(ls[i].start.y).min(ls[i].end.y);
            x1 = x1.max(ls[i].start.x).max(ls[i].end.x);
            y1 = y1.max(ls[i].start.y).max(ls[i].end.y);
            i += 1;
        }
        (x0, y0, x1, y1)
    }

    fn any_frag_line_or_other() -> Fragment {
        let l = any_grid_line(LIM4);
        if kani::any() {
            Fragment::Line(l)
        } else {
            Fragment::Circle(Circle::new(l.start, 1.0, false))
        }
    }

    /// R-S soundness of the predicate: is_rect never panics, and true => four lines that are
    /// exactly the four sides of their bounding box
    fn is_rect_sound_case(case: u8) {
        let frags = [any_frag_line_or_other(), any_frag_line_or_other(), any_frag_line_or_other(), any_frag_line_or_other()];
        let refs = [&frags[0], &frags[1], &frags[2], &frags[3]];
        unsafe { CASE = case };
        kani::assume(case_is_greedy(&refs, case));
        // validity of the fragments of one contact group: they come out of `merge_recursive`, so
        // lines are not degenerate and no two of them coincide (C09: S4 + L-M)
        let mut i = 0;
        while i < 4 {
            if let Some(l) = frags[i].as_line() {
                kani::assume(!(l.start.x == l.end.x && l.start.y == l.end.y));
                let mut j = i + 1;
                while j < 4 {
                    if let Some(m) = frags[j].as_line() {
                        let same = |p: Point, q: Point| p.x == q.x && p.y == q.y;
                        kani::assume(!((same(l.start, m.start) && same(l.end, m.end)) || (same(l.start, m.end) && same(l.end, m.start))));
                    }
                    j += 1;
                }
            }
            i += 1;
        }
        kani::cover!(true);
        let ok = is_rect(&refs); // must not panic on `.expect("expecting a line")`
        if case < 3 {
            kani::cover!(ok);
        }
        if ok {
            let ls = [frags[0].as_line(), frags[1].as_line(), frags[2].as_line(), frags[3].as_line()];
            assert!(ls[0].is_some() && ls[1].is_some() && ls[2].is_some() && ls[3].is_some(), "a rect is made of four lines");
            let ls = [ls[0].unwrap(), ls[1].unwrap(), ls[2].unwrap(), ls[3].unwrap()];
            let (x0, y0, x1, y1) = bbox(ls);
            assert!(exact_four_sides(ls, x0, y0, x1, y1), "the four lines are exactly the four sides of their bounding box");
        }
    }

    #[kani::proof]
    #[kani::unwind(6)]
    #[kani::stub(crate::buffer::cell_buffer::endorse::parallel_aabb_group, stub_parallel_aabb_group)]
    pub(crate) fn check_is_rect_sound_m0() {
        is_rect_sound_case(0);
    }

    #[kani::proof]
    #[kani::unwind(6)]
    #[kani::stub(crate::buffer::cell_buffer::endorse::parallel_aabb_group, stub_parallel_aabb_group)]
    pub(crate) fn check_is_rect_sound_m1() {
        is_rect_sound_case(1);
    }

    #[kani::proof]
    #[kani::unwind(6)]
    #[kani::stub(crate::buffer::cell_buffer::endorse::parallel_aabb_group, stub_parallel_aabb_group)]
    pub(crate) fn check_is_rect_sound_m2() {
        is_rect_sound_case(2);
    }

    /// fewer than two parallel pairs: never a rect (and no indexing at all)
    #[kani::proof]
    #[kani::unwind(6)]
    #[kani::stub(crate::buffer::cell_buffer::endorse::parallel_aabb_group, stub_parallel_aabb_group)]
    pub(crate) fn check_is_rect_sound_few_pairs() {
        let frags = [any_frag_line_or_other(), any_frag_line_or_other(), any_frag_line_or_other(), any_frag_line_or_other()];
        let refs = [&frags[0], &frags[1], &frags[2], &frags[3]];
        let c: u8 = kani::any();
        kani::assume(c == 3 || c == 4);
        unsafe { CASE = c };
        kani::cover!(true);
        assert!(!is_rect(&refs), "fewer than two parallel pairs is not a rect");
        // other lengths are rejected before anything is looked at
        assert!(!is_rect(&refs[..3]) && !is_rect(&[]), "a rect has exactly four fragments");
    }

    /// R-C completeness: the four sides of any lattice rectangle, in any order, any dashing
    fn rect_sides_any_order() -> [Fragment; 4] {
        let a = any_grid_point(LIM4);
        let b = any_grid_point(LIM4);
        kani::assume(a.x < b.x && a.y < b.y);
        let (x0, y0, x1, y1) = (a.x, a.y, b.x, b.y);
        let br: [bool; 4] = kani::any();
        // Line::new orders the end points, as every line coming out of a merge is
        let sides = [
            Line::new(Point::new(x0, y0), Point::new(x1, y0), br[0]),
            Line::new(Point::new(x0, y1), Point::new(x1, y1), br[1]),
            Line::new(Point::new(x0, y0), Point::new(x0, y1), br[2]),
            Line::new(Point::new(x1, y0), Point::new(x1, y1), br[3]),
        ];
        let p: [u8; 4] = kani::any();
        kani::assume(p[0] < 4 && p[1] < 4 && p[2] < 4 && p[3] < 4);
        kani::assume(p[0] != p[1] && p[0] != p[2] && p[0] != p[3] && p[1] != p[2] && p[1] != p[3] && p[2] != p[3]);
        // (no symbolic array index: CBMC over-approximates those on arrays of float structs)
        let pick = |i: u8| match i {
            0 => Fragment::Line(sides[0].clone()),
            1 => Fragment::Line(sides[1].clone()),
            2 => Fragment::Line(sides[2].clone()),
            _ => Fragment::Line(sides[3].clone()),
        };
        [pick(p[0]), pick(p[1]), pick(p[2]), pick(p[3])]
    }

    fn is_rect_complete_case(case: u8) {
        let frags = rect_sides_any_order();
        let refs = [&frags[0], &frags[1], &frags[2], &frags[3]];
        unsafe { CASE = case };
        kani::assume(case_is_greedy(&refs, case));
        kani::cover!(true);
        assert!(is_rect(&refs), "a drawn rectangle is recognised");
    }

    /// the sides of a rectangle always pair up into one of the three perfect matchings
    #[kani::proof]
    #[kani::unwind(6)]
    pub(crate) fn check_is_rect_complete_pairing() {
        let frags = rect_sides_any_order();
        let refs = [&frags[0], &frags[1], &frags[2], &frags[3]];
        kani::cover!(true);
        assert!(case_is_greedy(&refs, 0) || case_is_greedy(&refs, 1) || case_is_greedy(&refs, 2), "two parallel pairs");
    }

    #[kani::proof]
    #[kani::unwind(6)]
    #[kani::stub(crate::buffer::cell_buffer::endorse::parallel_aabb_group, stub_parallel_aabb_group)]
    pub(crate) fn check_is_rect_complete_m0() {
        is_rect_complete_case(0);
    }

    #[kani::proof]
    #[kani::unwind(6)]
    #[kani::stub(crate::buffer::cell_buffer::endorse::parallel_aabb_group, stub_parallel_aabb_group)]
    pub(crate) fn check_is_rect_complete_m1() {
        is_rect_complete_case(1);
    }

    #[kani::proof]
    #[kani::unwind(6)]
    #[kani::stub(crate::buffer::cell_buffer::endorse::parallel_aabb_group, stub_parallel_aabb_group)]
    pub(crate) fn check_is_rect_complete_m2() {
        is_rect_complete_case(2);
    }

    // ---- endorse_rect against the contract of is_rect ------------------------------------------
    pub(crate) static mut IS_RECT: bool = false;
    pub(crate) fn stub_is_rect(_fragments: &[&Fragment]) -> bool {
        unsafe { IS_RECT }
    }

    /// contract of the `Bounds` implementations (N4): per-axis min / max of the two defining points
    pub(crate) fn stub_bounds(f: &Fragment) -> (Point, Point) {
        match f {
            Fragment::Line(l) => (
                Point::new(l.start.x.min(l.end.x), l.start.y.min(l.end.y)),
                Point::new(l.start.x.max(l.end.x), l.start.y.max(l.end.y)),
            ),
            _ => (Point::new(0.0, 0.0), Point::new(0.0, 0.0)),
        }
    }

    #[kani::proof]
    #[kani::unwind(10)]
    #[kani::stub(crate::buffer::cell_buffer::endorse::is_rect, stub_is_rect)]
    #[kani::stub(<crate::buffer::fragment_buffer::fragment::Fragment as crate::buffer::fragment_buffer::fragment::Bounds>::bounds, stub_bounds)]
    pub(crate) fn check_endorse_rect() {
        let ls = [any_grid_line(LIM4), any_grid_line(LIM4), any_grid_line(LIM4), any_grid_line(LIM4)];
        let b: bool = kani::any();
        let (x0, y0, x1, y1) = bbox([&ls[0], &ls[1], &ls[2], &ls[3]]);
        // contract of is_rect (obligation RS.is_rect_sound)
        kani::assume(!b || exact_four_sides([&ls[0], &ls[1], &ls[2], &ls[3]], x0, y0, x1, y1));
        unsafe { IS_RECT = b };
        let frags = [Fragment::Line(ls[0].clone()), Fragment::Line(ls[1].clone()), Fragment::Line(ls[2].clone()), Fragment::Line(ls[3].clone())];
        kani::cover!(b);
        kani::cover!(!b);
        let refs = [&frags[0], &frags[1], &frags[2], &frags[3]];
        let r = endorse_rect(&refs);
        assert!(r.is_some() == b, "endorse_rect is Some exactly when is_rect");
        if let Some(rect) = r {
            assert!(rect.start.x == x0 && rect.start.y == y0 && rect.end.x == x1 && rect.end.y == y1, "the rect is the box whose sides the lines are");
            assert!(rect.radius.is_none() && !rect.is_filled, "sharp, unfilled");
            assert!(rect.is_broken == (ls[0].is_broken || ls[1].is_broken || ls[2].is_broken || ls[3].is_broken), "dashed iff any side is");
        }
    }
}

#[cfg(all(svgbob_verif, test))]
pub(crate) mod b {
    use super::*;

    fn perms() -> Vec<[usize; 4]> {
        let mut v = vec![];
        for a in 0..4 {
            for b in 0..4 {
                for c in 0..4 {
                    for d in 0..4 {
                        if a != b && a != c && a != d && b != c && b != d && c != d {
                            v.push([a, b, c, d]);
                        }
                    }
                }
            }
        }
        v
    }

    /// R-C / R-S natively: rectangles, ladders, T junctions and overhangs on a small lattice
    #[test]
    fn bounded_is_rect_shapes() {
        let mut n = 0u64;
        let coords = [0.0f32, 0.5, 1.0, 2.5, 7.0];
        for &x0 in &coords {
            for &x1 in &coords {
                for &y0 in &coords {
                    for &y1 in &coords {
                        if !(x0 < x1 && y0 < y1) {
                            continue;
                        }
                        for mask in 0..16u32 {
                            let br = |i: u32| mask & (1 << i) != 0;
                            let sides = [
                                Line::new(Point::new(x0, y0), Point::new(x1, y0), br(0)),
                                Line::new(Point::new(x0, y1), Point::new(x1, y1), br(1)),
                                Line::new(Point::new(x0, y0), Point::new(x0, y1), br(2)),
                                Line::new(Point::new(x1, y0), Point::new(x1, y1), br(3)),
                            ];
                            for p in perms() {
                                let frags: Vec<Fragment> = p.iter().map(|i| Fragment::Line(sides[*i].clone())).collect();
                                let refs: Vec<&Fragment> = frags.iter().collect();
                                let r = endorse_rect(&refs);
                                let want = crate::fragment::Rect::new(Point::new(x0, y0), Point::new(x1, y1), false, mask != 0);
                                if r != Some(want) {
                                    println!("BOUNDED-WITNESS rectangle ({},{})-({},{}) order {:?} dashing {:04b}: {:?}", x0, y0, x1, y1, p, mask, r);
                                    panic!("a drawn rectangle is recognised");
                                }
                                n += 1;
                            }
                        }
                        // overhanging variants must not be rects: rails longer than the box, rungs shorter, ...
                        for d in [0.5f32, 1.0] {
                            let variants = [
                                // ladder: rails overhang on both ends
                                [((x0, y0), (x1, y0)), ((x0, y1), (x1, y1)), ((x0, y0 - d), (x0, y1 + d)), ((x1, y0 - d), (x1, y1 + d))],
                                // overhanging top and bottom
                                [((x0 - d, y0), (x1 + d, y0)), ((x0 - d, y1), (x1 + d, y1)), ((x0, y0), (x0, y1)), ((x1, y0), (x1, y1))],
                                // sides inset (the glyph-like '#' shape)
                                [((x0 - d, y0), (x1 + d, y0)), ((x0 - d, y1), (x1 + d, y1)), ((x0, y0), (x0, y1)), ((x1, y0), (x1, y1))],
                                // sides too long downwards only
                                [((x0, y0), (x1, y0)), ((x0, y1), (x1, y1)), ((x0, y0), (x0, y1 + d)), ((x1, y0), (x1, y1 + d))],
                            ];
                            for v in variants {
                                let frags: Vec<Fragment> = v
                                    .iter()
                                    .map(|(a, b)| Fragment::Line(Line::new(Point::new(a.0, a.1), Point::new(b.0, b.1), false)))
                                    .collect();
                                for p in perms() {
                                    let refs: Vec<&Fragment> = p.iter().map(|i| &frags[*i]).collect();
                                    if let Some(r) = endorse_rect(&refs) {
                                        println!("BOUNDED-WITNESS non-rectangle {:?} order {:?} endorsed as {:?}", v, p, r);
                                        panic!("lines that merely touch are not a rect");
                                    }
                                    n += 1;
                                }
                            }
                        }
                    }
                }
            }
        }
        println!("BOUNDED-CASES {}", n);
    }

    /// R-P (bounded stand-in): parallel_aabb_group = greedy matching in lexicographic order over the
    /// real `is_aabb_parallel` relation, for every 4-tuple from a pool
    #[test]
    fn bounded_parallel_aabb_group() {
        let l = |a: (f32, f32), b: (f32, f32), br: bool| Fragment::Line(Line::new(Point::new(a.0, a.1), Point::new(b.0, b.1), br));
        let pool = vec![
            l((0.0, 0.0), (2.0, 0.0), false),
            l((0.0, 4.0), (2.0, 4.0), true),
            l((0.0, 6.0), (2.0, 6.0), false),
            l((0.0, 0.0), (0.0, 4.0), false),
            l((2.0, 0.0), (2.0, 4.0), false),
            l((0.0, 0.0), (2.0, 4.0), false),
            l((1.0, 0.0), (3.0, 0.0), false),
            Fragment::Circle(Circle::new(Point::new(1.0, 1.0), 1.0, false)),
            Fragment::Arc(Arc::new(Point::new(0.0, 0.0), Point::new(1.0, 1.0), 1.0)),
        ];
        let mut n = 0u64;
        let k = pool.len();
        for a in 0..k {
            for b in 0..k {
                for c in 0..k {
                    for d in 0..k {
                        let refs = [&pool[a], &pool[b], &pool[c], &pool[d]];
                        let got = parallel_aabb_group(&refs);
                        let (want, cnt) = spec_greedy(4, |i, j| refs[i].is_aabb_parallel(refs[j]));
                        if got.len() != cnt || got.iter().zip(want.iter()).any(|(g, w)| g != w) {
                            println!("BOUNDED-WITNESS parallel_aabb_group on pool indices {:?}: {:?} (greedy: {:?})", [a, b, c, d], got, &want[..cnt.min(4)]);
                            panic!("parallel_aabb_group = greedy matching");
                        }
                        for (i, j) in &got {
                            if refs[*i].as_line().is_none() || refs[*j].as_line().is_none() {
                                println!("BOUNDED-WITNESS pair names a non-line {:?}", [a, b, c, d]);
                                panic!("pairs only name lines");
                            }
                        }
                        n += 1;
                    }
                }
            }
        }
        println!("BOUNDED-CASES {}", n);
    }

    fn thorough() -> bool {
        std::env::var("VERIF_TIER").map(|v| v == "thorough").unwrap_or(false)
    }

    /// C05 completeness / soundness through the real tables (bounded stand-in): drawn boxes become exactly
    /// one rect of the drawn position, size, rounding (the radius of the drawn corner arcs) and dashing (any
    /// dashed edge or side); attaching a stub line prevents it
    #[test]
    fn bounded_boxes() {
        use crate::buffer::{CellBuffer, FragmentBuffer, Span};
        let (maxw, maxh) = if thorough() { (60usize, 30usize) } else { (7, 4) };
        // (name, corner characters, inset of the corners relative to the sides)
        let corners: [(&str, [char; 4], usize); 4] = [
            ("sharp", ['+', '+', '+', '+'], 0),
            ("round", ['.', '.', '\'', '\''], 0),
            ("round2", [',', '.', '`', '\''], 0),
            ("wide", ['.', '.', '\'', '\''], 1),
        ];
        let mut n = 0u64;
        for (style, c, inset) in corners {
            for (top, bottom) in [('-', '-'), ('~', '~'), ('-', '~'), ('~', '-')] {
                for w in 0..=maxw {
                    for h in 0..=maxh {
                        if style != "sharp" && w == 0 {
                            continue; // two corner characters with no edge between them are not a box
                        }
                        if inset == 1 && h == 0 {
                            continue; // the wide style needs a side row
                        }
                        for (dx, dy) in [(0usize, 0usize), (3, 2), (17, 5)] {
                            for variant in ["plain", "text", "dashed_both", "dashed_left", "dashed_right", "dashed_first", "dashed_last", "stub"] {
                                if variant.starts_with("dashed") && variant != "dashed_first" && variant != "dashed_last" && h < 3 {
                                    continue;
                                }
                                if (variant == "dashed_first" || variant == "dashed_last") && h < 2 {
                                    continue;
                                }
                                if variant == "text" && (w + 2 * inset < 3 || h < 1) {
                                    continue;
                                }
                                if variant == "stub" && inset == 1 {
                                    continue; // with inset corners the appended dashes do not touch the outline
                                }
                                if (top, bottom) != ('-', '-') && variant != "plain" {
                                    continue; // edge dashing is combined with the plain variant only
                                }
                                let (left, right) = (dx, dx + w + 1 + 2 * inset);
                                let mk_edge = |e: char| -> String { std::iter::repeat(e).take(right - left - 1 - 2 * inset).collect() };
                                let mut rows: Vec<String> = vec![];
                                rows.push(format!("{}{}{}{}", " ".repeat(left + inset), c[0], mk_edge(top), c[1]));
                                for i in 0..h {
                                    let dashed_row = match variant {
                                        "dashed_both" | "dashed_left" | "dashed_right" => i == 1,
                                        "dashed_first" => i == 0,
                                        "dashed_last" => i == h - 1,
                                        _ => false,
                                    };
                                    let ls = if dashed_row && variant != "dashed_right" { ':' } else { '|' };
                                    let rs = if dashed_row && variant != "dashed_left" { ':' } else { '|' };
                                    let mut inner: String = " ".repeat(right - left - 1);
                                    if variant == "text" && i == 0 {
                                        inner = format!(" ab{}", " ".repeat(right - left - 1 - 3));
                                    }
                                    rows.push(format!("{}{}{}{}", " ".repeat(left), ls, inner, rs));
                                }
                                let tail = if variant == "stub" { "--" } else { "" };
                                rows.push(format!("{}{}{}{}{}", " ".repeat(left + inset), c[2], mk_edge(bottom), c[3], tail));
                                let text = format!("{}{}\n", "\n".repeat(dy), rows.join("\n"));
                                let cb = CellBuffer::from(text.as_str());
                                let spans: Vec<Span> = Vec::<Span>::from(&cb);
                                // the corner arcs the drawing consists of (before any endorsement)
                                let mut arc_radii: Vec<f32> = vec![];
                                for sp in spans.iter() {
                                    for fs in FragmentBuffer::from(sp.clone()).merge_fragment_spans() {
                                        if let Some(a) = fs.fragment.as_arc() {
                                            arc_radii.push(a.radius);
                                        }
                                    }
                                }
                                let mut rects = vec![];
                                let mut others = 0;
                                for sp in spans {
                                    let en = sp.endorse();
                                    for f in en.accepted {
                                        match f.fragment {
                                            Fragment::Rect(r) => rects.push(r),
                                            _ => others += 1,
                                        }
                                    }
                                    others += en.rejects.iter().filter(|s| !s.is_empty()).count();
                                }
                                let (x0, y0) = (left as f32 + 0.5, dy as f32 * 2.0 + 1.0);
                                let (x1, y1) = (right as f32 + 0.5, (dy + h + 1) as f32 * 2.0 + 1.0);
                                let any_dashed = ((top == '~' || bottom == '~') && right - left - 1 - 2 * inset > 0) || variant.starts_with("dashed");
                                let ok = if variant == "stub" {
                                    rects.is_empty()
                                } else {
                                    rects.len() == 1
                                        && rects[0].start.x == x0 && rects[0].start.y == y0 && rects[0].end.x == x1 && rects[0].end.y == y1
                                        && !rects[0].is_filled
                                        && rects[0].is_broken == any_dashed
                                        && if style == "sharp" {
                                            rects[0].radius.is_none() && arc_radii.is_empty()
                                        } else {
                                            arc_radii.len() == 4 && arc_radii.iter().all(|r| Some(*r) == rects[0].radius) && arc_radii[0] > 0.0
                                        }
                                        && others == if variant == "text" { 1 } else { 0 }
                                };
                                if !ok {
                                    println!("BOUNDED-WITNESS box style={} edges={:?}/{:?} w={} h={} offset=({},{}) variant={}: rects {:?}, corner arc radii {:?}, {} other fragments\n{}",
                                        style, top, bottom, w, h, dx, dy, variant, rects, arc_radii, others, text);
                                    panic!("a drawn box is exactly one matching rect");
                                }
                                n += 1;
                            }
                        }
                    }
                }
            }
        }
        // a label that fills the interior from side to side: every ASCII letter and digit next to the sides
        // (letters such as o, O, v, x carry drawing signals of their own and must not make a side grow a stub)
        for (style, c, _inset) in corners.iter().filter(|c| c.2 == 0) {
            for ch in ('a'..='z').chain('A'..='Z').chain('0'..='9') {
                if ch == 'X' {
                    continue; // a drawing letter, not plain text: its two diagonals are strong strokes that join the corners
                }
                for (w, h) in [(1usize, 1usize), (4, 1), (3, 2)] {
                    let label: String = std::iter::repeat(ch).take(w).collect();
                    let mut rows = vec![format!("   {}{}{}", c[0], "-".repeat(w), c[1])];
                    for i in 0..h {
                        rows.push(format!("   |{}|", if i == 0 { label.clone() } else { " ".repeat(w) }));
                    }
                    rows.push(format!("   {}{}{}", c[2], "-".repeat(w), c[3]));
                    let text = format!("\n\n{}\n", rows.join("\n"));
                    let cb = CellBuffer::from(text.as_str());
                    let (mut rects, mut others) = (0, 0);
                    for sp in Vec::<Span>::from(&cb) {
                        let en = sp.endorse();
                        for f in en.accepted {
                            match f.fragment {
                                Fragment::Rect(_) => rects += 1,
                                _ => others += 1,
                            }
                        }
                        others += en.rejects.iter().filter(|s| !s.is_empty()).count();
                    }
                    if rects != 1 || others != 1 {
                        println!("BOUNDED-WITNESS box style={} with the label {:?} from side to side: {} rect(s), {} other fragments\n{}", style, label, rects, others, text);
                        panic!("a drawn box is exactly one matching rect");
                    }
                    n += 1;
                }
            }
        }
        println!("BOUNDED-CASES {}", n);
    }
}
