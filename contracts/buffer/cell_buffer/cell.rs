//! Contracts for `buffer/cell_buffer/cell.rs`.
use super::*;
use crate::__verif::h::*;

pub(crate) fn post_top_left_most(c: Cell, r: Point) -> bool {
    r.x == c.x as f32 && r.y == (c.y as f32) * 2.0 && grid(r)
}
pub(crate) fn post_bottom_right_most(c: Cell, r: Point) -> bool {
    r.x == (c.x + 1) as f32 && r.y == ((c.y + 1) as f32) * 2.0
}
/// Chebyshev distance <= 1
pub(crate) fn post_is_adjacent(a: Cell, b: Cell, r: bool) -> bool {
    let dx = (a.x as i64 - b.x as i64).abs();
    let dy = (a.y as i64 - b.y as i64).abs();
    r == (dx <= 1 && dy <= 1)
}

#[cfg(kani)]
pub(crate) mod k {
    use super::*;
    use crate::__verif::kh::*;

    #[kani::proof]
    pub(crate) fn check_cell_corners() {
        let c = any_cell();
        kani::assume(valid_cell(c));
        kani::cover!(true);
        assert!(post_top_left_most(c, c.top_left_most()), "post_top_left_most");
        assert!(post_bottom_right_most(c, c.bottom_right_most()), "post_bottom_right_most");
        assert!(Cell::width() == 1.0 && Cell::height() == 2.0, "cell is 1 x 2");
    }

    /// G3 / C06: absolute_position is the exact translation by (x, 2y); localize_point its inverse
    #[kani::proof]
    pub(crate) fn check_cell_absolute_position() {
        let c = any_cell();
        let p = any_point();
        kani::assume(valid_cell(c) && grid_lt(p, 16.0));
        kani::cover!(true);
        let r = c.absolute_position(p);
        assert!(r.x == c.x as f32 + p.x && r.y == (c.y as f32) * 2.0 + p.y, "translation by cell origin");
        assert!(grid_coord_lt(r.x, 524288.0) && grid_coord_lt(r.y, 524288.0), "result on lattice");
        // exactness: the real-number sum is representable, so (r - origin) gives p back
        let back = c.localize_point(r);
        assert!(eq_point(back, p), "localize_point inverts absolute_position");
        // translation composes: moving the cell by d moves the result by d
        let dx: i32 = kani::any();
        let dy: i32 = kani::any();
        kani::assume(dx >= 0 && dx < 1024 && dy >= 0 && dy < 1024);
        let c2 = Cell::new(c.x + dx, c.y + dy);
        kani::assume(valid_cell(c2));
        let r2 = c2.absolute_position(p);
        assert!(r2.x == r.x + dx as f32 && r2.y == r.y + 2.0 * dy as f32, "abs(c+d) = abs(c) + d");
    }

    #[kani::proof]
    pub(crate) fn check_cell_adjacent() {
        let a = any_cell();
        let b = any_cell();
        kani::assume(valid_cell(a) && valid_cell(b));
        kani::cover!(true);
        assert!(post_is_adjacent(a, b, a.is_adjacent(&b)), "post_is_adjacent");
        assert!(a.is_adjacent(&b) == b.is_adjacent(&a), "symmetric");
        // A1 (C10): a blank column or row in between means not adjacent
        if (a.x - b.x).abs() >= 2 || (a.y - b.y).abs() >= 2 {
            assert!(!a.is_adjacent(&b), "gap of one cell separates");
        }
    }

    #[kani::proof]
    pub(crate) fn check_cell_localize_bounds() {
        let a = any_cell();
        let b = any_cell();
        let c = any_cell();
        kani::assume(valid_cell(a) && valid_cell(b) && valid_cell(c));
        kani::cover!(true);
        let l = a.localize_cell(b);
        assert!(l.x == b.x - a.x && l.y == b.y - a.y, "localize_cell subtracts");
        assert!(a + l == b, "Add inverts localize_cell");
        assert!((b - a) == l, "Sub agrees");
        let (lo, hi) = Cell::rearrange_bound(a, b);
        assert!(lo.x == a.x.min(b.x) && lo.y == a.y.min(b.y) && hi.x == a.x.max(b.x) && hi.y == a.y.max(b.y),
            "rearrange_bound is per-axis min/max");
        assert!(c.is_bounded(a, b) == (c.x >= lo.x && c.x <= hi.x && c.y >= lo.y && c.y <= hi.y), "is_bounded inclusive box");
        // Ord on cells is row-major
        let o = a.cmp(&b);
        assert!((o == Ordering::Less) == (a.y < b.y || (a.y == b.y && a.x < b.x)), "cell order row-major");
        assert!((o == Ordering::Equal) == (a == b), "cell order eq");
    }

    /// neighbours are adjacent and at the documented offsets
    #[kani::proof]
    pub(crate) fn check_cell_neighbours() {
        let c = any_cell();
        kani::assume(valid_cell(c) && c.x >= 1 && c.y >= 1);
        kani::cover!(true);
        assert!(c.top_left() == Cell::new(c.x - 1, c.y - 1) && c.top() == Cell::new(c.x, c.y - 1)
            && c.top_right() == Cell::new(c.x + 1, c.y - 1) && c.left() == Cell::new(c.x - 1, c.y)
            && c.right() == Cell::new(c.x + 1, c.y) && c.bottom_left() == Cell::new(c.x - 1, c.y + 1)
            && c.bottom() == Cell::new(c.x, c.y + 1) && c.bottom_right() == Cell::new(c.x + 1, c.y + 1), "neighbour offsets");
    }

    /// the 25 named sub-cell points of a cell: origin + k*0.25, inside the cell
    #[kani::proof]
    pub(crate) fn check_cell_named_points() {
        let c = any_cell();
        kani::assume(valid_cell(c));
        kani::cover!(true);
        let o = c.top_left_most();
        let pts = [c.a(), c.b(), c.c(), c.d(), c.e(), c.f(), c.g(), c.h(), c.i(), c.j(), c.k(), c.l(),
                   c.m(), c.n(), c.o(), c.p(), c.q(), c.r(), c.s(), c.t(), c.u(), c.v(), c.w(), c.x(), c.y()];
        let mut i = 0;
        while i < 25 {
            let col = (i % 5) as f32;
            let row = (i / 5) as f32;
            assert!(pts[i].x == o.x + col * 0.25 && pts[i].y == o.y + row * 0.5, "named point position");
            i += 1;
        }
        assert!(Cell::unit(1) == 0.25 && Cell::unit(2) == 0.5 && Cell::unit(3) == 0.75, "unit");
    }
}
