//! Contracts for `buffer/cell_buffer/span.rs` (C10, C01, C06).
use super::*;
use crate::__verif::h::*;

#[cfg(kani)]
pub(crate) mod k {
    use super::*;
    use crate::__verif::kg::*;

    fn span3(c: [Cell; 3]) -> Span {
        Span(vec![(c[0], 'a'), (c[1], '-'), (c[2], '|')])
    }
    fn span2(c: [Cell; 2]) -> Span {
        Span(vec![(c[0], '+'), (c[1], 'x')])
    }

    fn adj(a: Cell, b: Cell) -> bool {
        (a.x - b.x).abs() <= 1 && (a.y - b.y).abs() <= 1
    }

    /// A2 (C10): can_merge <=> some cell of one is adjacent to some cell of the other;
    /// merge = concatenation (nothing dropped, duplicated or reordered)
    #[kani::proof]
    #[kani::unwind(7)]
    pub(crate) fn check_span_merge() {
        let a = [any_valid_cell(), any_valid_cell(), any_valid_cell()];
        let b = [any_valid_cell(), any_valid_cell()];
        let (sa, sb) = (span3(a), span2(b));
        kani::cover!(true);
        let want = adj(a[0], b[0]) || adj(a[0], b[1]) || adj(a[1], b[0]) || adj(a[1], b[1]) || adj(a[2], b[0]) || adj(a[2], b[1]);
        assert!(sa.can_merge(&sb) == want, "can_merge <=> an adjacent pair of cells exists");
        assert!(sb.can_merge(&sa) == want, "symmetric");
        assert!(sa.is_adjacent(&b[0]) == (adj(a[0], b[0]) || adj(a[1], b[0]) || adj(a[2], b[0])), "is_adjacent");
        let m = sa.merge(&sb);
        kani::cover!(m.is_some());
        assert!(m.is_some() == want, "merge is Some exactly when can_merge");
        if let Some(m) = m {
            assert!(m.len() == 5, "concatenation keeps every cell");
            assert!(m[0] == (a[0], 'a') && m[1] == (a[1], '-') && m[2] == (a[2], '|') && m[3] == (b[0], '+') && m[4] == (b[1], 'x'),
                "in order: self then other");
        }
        // a blank column or row between two sub-diagrams: never merged
        let sep_cols = a[0].x.max(a[1].x).max(a[2].x) + 1 < b[0].x.min(b[1].x);
        let sep_rows = a[0].y.max(a[1].y).max(a[2].y) + 1 < b[0].y.min(b[1].y);
        if sep_cols || sep_rows {
            assert!(!sa.can_merge(&sb), "separated sub-diagrams never share a span");
        }
    }

    /// N2 / C01: bounds is Some(min per axis, max per axis) for a non-empty span, None for an empty one
    #[kani::proof]
    #[kani::unwind(7)]
    pub(crate) fn check_span_bounds_localize() {
        let a = [any_valid_cell(), any_valid_cell(), any_valid_cell()];
        let s = span3(a);
        kani::cover!(true);
        let (x0, x1) = (a[0].x.min(a[1].x).min(a[2].x), a[0].x.max(a[1].x).max(a[2].x));
        let (y0, y1) = (a[0].y.min(a[1].y).min(a[2].y), a[0].y.max(a[1].y).max(a[2].y));
        assert!(s.bounds() == Some((Cell::new(x0, y0), Cell::new(x1, y1))), "bounds = per-axis min / max");
        assert!(Span(vec![]).bounds().is_none(), "an empty span has no bounds");
        assert!(Span::new(a[0], 'q').bounds() == Some((a[0], a[0])), "Span::new is a one-cell span");
        assert!(s.top_left() == Cell::new(x0, y0), "top_left (must not reach the expect)");
        // C06: localize subtracts the top-left cell from every cell, keeps characters and order
        let l = s.clone().localize();
        assert!(l.len() == 3, "same cells");
        assert!(l[0] == (Cell::new(a[0].x - x0, a[0].y - y0), 'a') && l[1] == (Cell::new(a[1].x - x0, a[1].y - y0), '-')
            && l[2] == (Cell::new(a[2].x - x0, a[2].y - y0), '|'), "localized by the top-left cell");
        // translation invariance of the localized span
        let d = any_valid_cell();
        kani::assume(d.x < 1024 && d.y < 1024);
        let moved = span3([Cell::new(a[0].x + d.x, a[0].y + d.y), Cell::new(a[1].x + d.x, a[1].y + d.y), Cell::new(a[2].x + d.x, a[2].y + d.y)]);
        let lm = moved.localize();
        assert!(lm[0] == l[0] && lm[1] == l[1] && lm[2] == l[2], "localize(translate(s, d)) = localize(s)");
    }

    #[kani::proof]
    #[kani::unwind(7)]
    pub(crate) fn check_span_extract_bounded() {
        let a = [any_valid_cell(), any_valid_cell(), any_valid_cell()];
        let (b1, b2) = (any_valid_cell(), any_valid_cell());
        let s = span3(a);
        kani::cover!(true);
        let inb = |c: Cell| c.x >= b1.x.min(b2.x) && c.x <= b1.x.max(b2.x) && c.y >= b1.y.min(b2.y) && c.y <= b1.y.max(b2.y);
        assert!(s.is_bounded(b1, b2) == (inb(a[0]) && inb(a[1]) && inb(a[2])), "is_bounded: every cell inside the box");
        assert!(s.hit_cell(b1) == (a[0] == b1 || a[1] == b1 || a[2] == b1), "hit_cell");
        let e = s.extract(b1, b2);
        let n = inb(a[0]) as usize + inb(a[1]) as usize + inb(a[2]) as usize;
        assert!(e.len() == n, "extract keeps exactly the cells inside the box");
    }
}

#[cfg(all(svgbob_verif, test))]
pub(crate) mod b {
    use super::*;
    use crate::buffer::CellBuffer;
    use std::collections::BTreeMap;

    /// label characters: no drawing meaning in any table
    fn is_label(ch: char) -> bool {
        "abcdefghijklmnpqrstuwyzABCDEFGHIJKLMNPQRSTUWYZ".contains(ch)
    }

    /// C04 at the level of `CellBuffer::get_fragment_spans` (what endorsement leaves over must keep its cell):
    /// every label character of the input is shown by exactly one text fragment, at its own cell
    fn check_labels(text: &str, what: &str) -> u64 {
        let cb = CellBuffer::from(text);
        let want: BTreeMap<Cell, char> = cb.iter().filter(|(_, ch)| is_label(**ch)).map(|(c, ch)| (*c, *ch)).collect();
        let (accepted, rejects) = cb.get_fragment_spans();
        let mut frags: Vec<Fragment> = accepted.into_iter().map(|f| f.fragment).collect();
        for sp in rejects {
            frags.extend(<Vec<crate::buffer::Contacts>>::from(sp).into_iter().flat_map(|c| c.0.into_iter().map(|f| f.fragment)));
        }
        let mut got: BTreeMap<Cell, Vec<char>> = BTreeMap::new();
        for f in &frags {
            if let Fragment::CellText(t) = f {
                // quoted text is kept apart from the cell map (C15): not a label of a cell
                if cb.escaped_text.iter().any(|(c, s)| *c == t.start && *s == t.content) {
                    continue;
                }
                let mut x = t.start.x;
                for ch in t.content.chars() {
                    if is_label(ch) {
                        got.entry(Cell::new(x, t.start.y)).or_default().push(ch);
                    }
                    x += unicode_width::UnicodeWidthChar::width(ch).unwrap_or(1).max(1) as i32;
                }
            }
        }
        for (cell, ch) in &want {
            if got.get(cell) != Some(&vec![*ch]) {
                println!("BOUNDED-WITNESS {}: label {:?} of cell {} is shown as {:?}\n{}", what, ch, cell, got.get(cell), text);
                panic!("every label character exactly once, in its own cell");
            }
        }
        for (cell, chs) in &got {
            if !want.contains_key(cell) {
                println!("BOUNDED-WITNESS {}: text {:?} shown at cell {} where the input has no label\n{}", what, chs, cell, text);
                panic!("no label is shifted into another cell");
            }
        }
        want.len() as u64
    }

    #[test]
    fn bounded_labels_conserved() {
        let mut n = 0u64;
        // (a) the diagrams bundled with the repository
        let dir = std::path::Path::new(env!("CARGO_MANIFEST_DIR")).join("test_data");
        let mut files: Vec<_> = std::fs::read_dir(&dir).map(|d| d.filter_map(|e| e.ok()).map(|e| e.path()).collect()).unwrap_or_else(|_| vec![]);
        files.sort();
        for f in files {
            if f.extension().map(|e| e == "bob").unwrap_or(false) {
                let text = std::fs::read_to_string(&f).unwrap();
                let body = match text.find("# Legend:") { Some(i) => &text[..i], None => &text[..] };
                n += check_labels(body, &format!("{:?}", f.file_name().unwrap()));
            }
        }
        // (b) circle / arc drawings (whole, upper part, lower part, left part) with labels touching them, at offsets
        for (idx, (art, _e, _x, _y, _c)) in crate::map::circle_map::__verif::catalogue().iter().enumerate() {
            let lines: Vec<&str> = art.lines().filter(|l| !l.trim().is_empty()).collect();
            let indent = lines.iter().map(|l| l.len() - l.trim_start().len()).min().unwrap_or(0);
            let rows: Vec<String> = lines.iter().map(|l| l[indent..].trim_end().to_string()).collect();
            let h = rows.len();
            let parts: Vec<Vec<String>> = vec![
                rows.clone(),
                rows[..(h + 1) / 2].to_vec(),
                rows[h / 2..].to_vec(),
                rows.iter().map(|r| r.chars().take((r.chars().count() + 1) / 2).collect()).collect(),
            ];
            for (pi, part) in parts.iter().enumerate() {
                for (dx, dy) in [(0usize, 0usize), (7, 2), (3, 5)] {
                    for label_row in [0usize, part.len() - 1] {
                        let mut text = "\n".repeat(dy);
                        for (r, row) in part.iter().enumerate() {
                            text.push_str(&" ".repeat(dx));
                            text.push_str(row);
                            if r == label_row {
                                text.push_str("ab");
                            }
                            text.push('\n');
                        }
                        n += check_labels(&text, &format!("catalogue drawing #{} part {} at ({},{})", idx, pi, dx, dy));
                    }
                }
            }
        }
        // (c) every drawing of the quarter / half / three-quarter arc catalogues, with a label or a tail touching it
        for (kind, span) in crate::map::circle_map::__verif::arc_catalogue_spans() {
            let w = span.iter().map(|(c, _)| c.x).max().unwrap_or(0) as usize + 1;
            let h = span.iter().map(|(c, _)| c.y).max().unwrap_or(0) as usize + 1;
            for (dx, dy) in [(0usize, 0usize), (7, 2), (1, 5)] {
                for attach in 0..3 {
                    let mut g = vec![vec![' '; w + dx + 6]; h + dy + 2];
                    for (c, ch) in span.iter() {
                        g[c.y as usize + dy][c.x as usize + dx] = *ch;
                    }
                    // label right after the last character of the first / last row, or below the first column
                    let row = if attach == 0 { dy } else { dy + h - 1 };
                    if attach < 2 {
                        let last = g[row].iter().rposition(|c| *c != ' ').unwrap_or(dx);
                        g[row][last + 1] = 'a';
                        g[row][last + 2] = 'b';
                    } else {
                        let col = g[dy + h - 1].iter().position(|c| *c != ' ').unwrap_or(dx);
                        g[dy + h][col] = 'k';
                    }
                    let text: String = g.iter().map(|r| r.iter().collect::<String>().trim_end().to_string()).collect::<Vec<_>>().join("\n") + "\n";
                    n += check_labels(&text, &format!("{} arc drawing at ({},{}) attach {}", kind, dx, dy, attach));
                }
            }
        }
        println!("BOUNDED-CASES {}", n);
    }

    /// A3 (C10): the spans of a cell buffer are exactly the connected components of its cells under
    /// 8-neighbour adjacency: a partition (no cell lost or duplicated), nothing joined across a gap -
    /// whatever the characters are (a double-width character is one cell) and however many groups are open
    fn check_components(cells: &[(Cell, char)]) -> bool {
        let mut cb = CellBuffer::new();
        for (c, ch) in cells {
            cb.insert(*c, *ch);
        }
        // reference: flood fill
        let mut comp: BTreeMap<Cell, usize> = BTreeMap::new();
        let mut ncomp = 0;
        for (c, _) in cells {
            if comp.contains_key(c) {
                continue;
            }
            let mut stack = vec![*c];
            comp.insert(*c, ncomp);
            while let Some(p) = stack.pop() {
                for (q, _) in cells {
                    if !comp.contains_key(q) && (q.x - p.x).abs() <= 1 && (q.y - p.y).abs() <= 1 {
                        comp.insert(*q, ncomp);
                        stack.push(*q);
                    }
                }
            }
            ncomp += 1;
        }
        let spans: Vec<Span> = Vec::<Span>::from(&cb);
        let mut seen: BTreeMap<Cell, usize> = BTreeMap::new();
        let mut ok = spans.len() == ncomp;
        for (si, sp) in spans.iter().enumerate() {
            for (c, ch) in sp.iter() {
                ok = ok && cells.contains(&(*c, *ch)) && seen.insert(*c, si).is_none();
            }
            // all cells of a span belong to one component
            let ids: std::collections::BTreeSet<usize> = sp.iter().filter_map(|(c, _)| comp.get(c).copied()).collect();
            ok = ok && ids.len() == 1;
        }
        ok = ok && seen.len() == cells.len();
        if !ok {
            println!("BOUNDED-WITNESS occupied cells {:?}: {} spans {:?}, {} components", cells, spans.len(), spans, ncomp);
        }
        ok
    }

    #[test]
    fn bounded_spans_are_components() {
        let (w, h) = (4usize, 3usize);
        let mut n = 0u64;
        // every subset of a 4 x 3 grid
        for code in 0..(1u32 << (w * h)) {
            let cells: Vec<(Cell, char)> = (0..(w * h)).filter(|i| code & (1 << i) != 0).map(|i| (Cell::new((i % w) as i32, (i / w) as i32), 'x')).collect();
            assert!(check_components(&cells), "spans = connected components");
            n += 1;
        }
        // many groups open at once: k separate bars (vertical, or leaning) of `rows` cells each, one column apart
        for k in 1..=14i32 {
            for rows in 2..=4i32 {
                for lean in [0i32, 1] {
                    let mut cells = vec![];
                    for b in 0..k {
                        for r in 0..rows {
                            cells.push((Cell::new(b * (2 + lean * rows) + lean * r, r), '|'));
                        }
                    }
                    cells.sort();
                    assert!(check_components(&cells), "spans = connected components");
                    n += 1;
                }
            }
        }
        // double-width characters are cells like any other: the column after them is blank, a cell beyond it is not adjacent
        for gap in 1..=3i32 {
            for wide_left in [false, true] {
                for rows in 1..=2i32 {
                    let mut cells = vec![];
                    for r in 0..rows {
                        cells.push((Cell::new(0, r), if wide_left { '一' } else { 'a' }));
                        cells.push((Cell::new(gap, r), if wide_left { 'a' } else { '一' }));
                    }
                    cells.sort();
                    assert!(check_components(&cells), "spans = connected components");
                    n += 1;
                }
            }
        }
        println!("BOUNDED-CASES {}", n);
    }
}
