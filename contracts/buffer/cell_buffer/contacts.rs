//! Contracts for `buffer/cell_buffer/contacts.rs` (grouping of touching fragments; C05, C03, C04, C10).
//! Bounded stand-ins: `Vec<FragmentSpan>` (each with its own `Vec` of cells) did not finish in Kani in 900 s
//! even against an opaque contact relation.
use super::*;
use crate::fragment::{CellText, Circle, Line};
use crate::Point;

#[cfg(all(svgbob_verif, test))]
pub(crate) mod b {
    use super::*;

    fn fs(i: i32, f: Fragment) -> FragmentSpan {
        FragmentSpan::new(Span::new(Cell::new(i, 0), 'x'), f)
    }
    fn line(i: i32, a: (f32, f32), b: (f32, f32)) -> FragmentSpan {
        fs(i, Fragment::Line(Line::new(Point::new(a.0, a.1), Point::new(b.0, b.1), false)))
    }

    fn pool() -> Vec<FragmentSpan> {
        vec![
            line(0, (0.0, 0.0), (4.0, 0.0)),
            line(1, (4.0, 0.0), (4.0, 4.0)),
            line(2, (0.0, 4.0), (4.0, 4.0)),
            line(3, (0.0, 0.0), (0.0, 4.0)),
            line(4, (10.0, 10.0), (12.0, 10.0)),
            line(5, (2.0, 0.0), (2.0, 2.0)),
            fs(6, Fragment::Circle(Circle::new(Point::new(10.0, 10.0), 0.5, false))),
            fs(7, Fragment::CellText(CellText::new(Cell::new(20, 5), "ab".to_string()))),
            fs(8, Fragment::CellText(CellText::new(Cell::new(22, 5), "c".to_string()))),
        ]
    }

    /// Contacts::merge = concatenation (every fragment once, in order) exactly when some fragment of one
    /// group contacts some fragment of the other
    #[test]
    fn bounded_contacts_merge() {
        let p = pool();
        let mut n = 0u64;
        for a0 in 0..p.len() {
            for a1 in 0..p.len() {
                for b0 in 0..p.len() {
                    for b1 in 0..p.len() {
                        let a = Contacts(vec![p[a0].clone(), p[a1].clone()]);
                        let b = Contacts(vec![p[b0].clone(), p[b1].clone()]);
                        let want = a.0.iter().any(|x| b.0.iter().any(|y| x.is_contacting(y)));
                        let m = a.merge(&b);
                        let ok = a.is_contacting(&b) == want
                            && m.is_some() == want
                            && m.map_or(true, |m| m.0 == vec![p[a0].clone(), p[a1].clone(), p[b0].clone(), p[b1].clone()]);
                        if !ok {
                            println!("BOUNDED-WITNESS groups [{},{}] and [{},{}] of the pool: touching (pairwise) = {}", a0, a1, b0, b1, want);
                            panic!("Contacts::merge = concatenation iff touching");
                        }
                        n += 1;
                    }
                }
            }
        }
        println!("BOUNDED-CASES {}", n);
    }

    /// endorse_rects partitions the groups: a group is either replaced by its rect (span = the group's
    /// cells) or kept unchanged, in order; nothing lost or duplicated
    #[test]
    fn bounded_endorse_rects_partition() {
        let p = pool();
        let rect_group = Contacts(vec![p[0].clone(), p[1].clone(), p[2].clone(), p[3].clone()]);
        let open_group = Contacts(vec![p[0].clone(), p[1].clone(), p[2].clone()]);
        let five = Contacts(vec![p[0].clone(), p[1].clone(), p[2].clone(), p[3].clone(), p[5].clone()]);
        let text = Contacts(vec![p[7].clone(), p[8].clone()]);
        let single = Contacts(vec![p[4].clone()]);
        let all = [rect_group, open_group, five, text, single];
        let is_rect = [true, false, false, false, false];
        let mut n = 0u64;
        for mask in 1..(1u32 << all.len()) {
            for rev in [false, true] {
                let mut idxs: Vec<usize> = (0..all.len()).filter(|i| mask & (1 << i) != 0).collect();
                if rev {
                    idxs.reverse();
                }
                let groups: Vec<Contacts> = idxs.iter().map(|i| all[*i].clone()).collect();
                let e = Contacts::endorse_rects(groups);
                let want_acc: Vec<usize> = idxs.iter().copied().filter(|i| is_rect[*i]).collect();
                let want_rej: Vec<Contacts> = idxs.iter().filter(|i| !is_rect[**i]).map(|i| all[*i].clone()).collect();
                let ok = e.accepted.len() == want_acc.len()
                    && e.rejects == want_rej
                    && e.accepted.iter().all(|f| matches!(&f.fragment, Fragment::Rect(r) if r.start == Point::new(0.0, 0.0) && r.end == Point::new(4.0, 4.0)) && f.span.len() == 4);
                if !ok {
                    println!("BOUNDED-WITNESS groups {:?}: {} accepted, {} rejected", idxs, e.accepted.len(), e.rejects.len());
                    panic!("endorse_rects is a partition");
                }
                n += 1;
            }
        }
        println!("BOUNDED-CASES {}", n);
    }
}
