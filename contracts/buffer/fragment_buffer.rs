//! Contracts for `buffer/fragment_buffer.rs` and the per-character tables reached through it
//! (bounded stand-ins: the tables live behind once_cell::Lazy, which Kani cannot compile).
use super::*;

#[cfg(all(svgbob_verif, test))]
pub(crate) mod b {
    use super::*;
    use crate::buffer::{CellBuffer, CellGrid};
    use crate::Point;
    use std::collections::BTreeSet;

    /// quarter-lattice sub-segments stroked by a set of axis-parallel lines inside one cell
    fn raster(lines: &[(Point, Point)]) -> Option<BTreeSet<(i32, i32, i32, i32)>> {
        let mut set = BTreeSet::new();
        for (a, b) in lines {
            let (ax, ay, bx, by) = ((a.x * 4.0) as i32, (a.y * 4.0) as i32, (b.x * 4.0) as i32, (b.y * 4.0) as i32);
            if ay == by {
                for x in ax.min(bx)..ax.max(bx) {
                    set.insert((x, ay, x + 1, ay));
                }
            } else if ax == bx {
                for y in ay.min(by)..ay.max(by) {
                    set.insert((ax, y, ax, y + 1));
                }
            } else {
                return None; // a diagonal: never for this alphabet
            }
        }
        Some(set)
    }

    /// C03 (a): the rows of '-', '|', '+' against the specification, for every assignment of the
    /// eight neighbours over {space, -, |, +}
    #[test]
    fn bounded_dash_bar_plus_rows() {
        let alphabet = [' ', '-', '|', '+'];
        let g = CellGrid::point;
        let (c, k, m, o, w) = (g(2, 0), g(0, 4), g(2, 4), g(4, 4), g(2, 8));
        let mut n = 0u64;
        for centre in ['-', '|', '+'] {
            for code in 0..4u32.pow(8) {
                let mut nb = [' '; 8];
                let mut cd = code;
                for slot in nb.iter_mut() {
                    *slot = alphabet[(cd % 4) as usize];
                    cd /= 4;
                }
                // neighbour order: tl, t, tr, l, r, bl, b, br ; a leading '.' row keeps the grid at row 1
                let text = format!(".\n {}{}{}\n {}{}{}\n {}{}{}\n", nb[0], nb[1], nb[2], nb[3], centre, nb[4], nb[5], nb[6], nb[7]);
                let (top, left, right, bottom) = (nb[1], nb[3], nb[4], nb[6]);
                let cb = CellBuffer::from(text.as_str());
                let cell = Cell::new(2, 2);
                let spans: Vec<Span> = Vec::<Span>::from(&cb);
                let span = spans.into_iter().find(|s| s.iter().any(|(c, _)| *c == cell)).expect("span of the centre cell");
                let fb = FragmentBuffer::from(span);
                let frags: Vec<Fragment> = fb.get(&cell).map(|v| v.iter().map(|fs| fs.fragment.clone()).collect()).unwrap_or_default();
                let mut want: Vec<(Point, Point)> = vec![];
                match centre {
                    '-' => want.push((k, o)),
                    '|' => {
                        want.push((c, w));
                        if right == '-' {
                            want.push((m, o));
                        }
                        if left == '-' {
                            want.push((k, m));
                        }
                    }
                    _ => {
                        if top == '|' || top == '+' {
                            want.push((c, m));
                        }
                        if bottom == '|' || bottom == '+' {
                            want.push((m, w));
                        }
                        if left == '-' || left == '+' {
                            want.push((k, m));
                        }
                        if right == '-' || right == '+' {
                            want.push((m, o));
                        }
                    }
                }
                let got_lines: Vec<(Point, Point)> = frags.iter().filter_map(|f| f.as_line().map(|l| (l.start, l.end))).collect();
                let texts: Vec<&Fragment> = frags.iter().filter(|f| f.as_line().is_none()).collect();
                let ok = if want.is_empty() {
                    // a '+' nobody points at is shown as text
                    got_lines.is_empty() && texts.len() == 1 && matches!(texts[0], Fragment::CellText(t) if t.content == "+")
                } else {
                    texts.is_empty() && raster(&got_lines).is_some() && raster(&got_lines) == raster(&want)
                };
                if !ok {
                    println!("BOUNDED-WITNESS centre {:?} neighbours {:?}: fragments {:?}, specified strokes {:?}", centre, nb, frags, want);
                    panic!("strokes of - | + as specified");
                }
                n += 1;
            }
        }
        println!("BOUNDED-CASES {}", n);
    }

    /// C09 S7: the same fragment span is never stored twice in a cell
    #[test]
    fn bounded_no_duplicate_fragment_in_cell() {
        let mut fb = FragmentBuffer::new();
        let cell = Cell::new(3, 4);
        let l = crate::fragment::line(CellGrid::k(), CellGrid::o());
        fb.add_fragment_to_cell(cell, '-', l.clone());
        fb.add_fragment_to_cell(cell, '-', l.clone());
        fb.add_fragment_to_cell(cell, '-', crate::fragment::line(CellGrid::c(), CellGrid::w()));
        let n = fb.get(&cell).map(|v| v.len()).unwrap_or(0);
        if n != 2 {
            println!("BOUNDED-WITNESS cell holds {} fragment spans after adding k-o twice and c-w once", n);
            panic!("no duplicate fragment in a cell");
        }
        // merge_fragment_spans: absolute positions, merged
        let merged = fb.merge_fragment_spans();
        assert!(merged.len() == 2, "two different lines stay two lines");
        println!("BOUNDED-CASES 1");
    }
}
