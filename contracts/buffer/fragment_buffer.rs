//! Contracts for `buffer/fragment_buffer.rs` and the per-character tables reached through it
//! (bounded stand-ins: the tables live behind once_cell::Lazy, which Kani cannot compile).
use super::*;

#[cfg(all(svgbob_verif, test))]
pub(crate) mod b {
    use super::*;
    use crate::buffer::{CellBuffer, CellGrid};
    use crate::Point;
    use std::collections::BTreeSet;

    /// quarter-lattice sub-segments stroked by a set of axis-parallel lines inside one cell
    fn raster(lines: &[(Point, Point)]) -> Option<BTreeSet<(i32, i32, i32, i32)>> {
        let mut set = BTreeSet::new();
        for (a, b) in lines {
            let (ax, ay, bx, by) = ((a.x * 4.0) as i32, (a.y * 4.0) as i32, (b.x * 4.0) as i32, (b.y * 4.0) as i32);
            if ay == by {
                for x in ax.min(bx)..ax.max(bx) {
                    set.insert((x, ay, x + 1, ay));
                }
            } else if ax == bx {
                for y in ay.min(by)..ay.max(by) {
                    set.insert((ax, y, ax, y + 1));
                }
            } else {
                return None; // a diagonal: never for this alphabet
            }
        }
        Some(set)
    }

    /// C03 (a): the rows of '-', '|', '+' against the specification, for every assignment of the
    /// eight neighbours over {space, -, |, +}
    #[test]
    fn bounded_dash_bar_plus_rows() {
        let alphabet = [' ', '-', '|', '+'];
        let g = CellGrid::point;
        let (c, k, m, o, w) = (g(2, 0), g(0, 4), g(2, 4), g(4, 4), g(2, 8));
        let mut n = 0u64;
        for centre in ['-', '|', '+'] {
            for code in 0..4u32.pow(8) {
                let mut nb = [' '; 8];
                let mut cd = code;
                for slot in nb.iter_mut() {
                    *slot = alphabet[(cd % 4) as usize];
                    cd /= 4;
                }
                // neighbour order: tl, t, tr, l, r, bl, b, br ; a leading '.' row keeps the grid at row 1
                let text = format!(".\n {}{}{}\n {}{}{}\n {}{}{}\n", nb[0], nb[1], nb[2], nb[3], centre, nb[4], nb[5], nb[6], nb[7]);
                let (top, left, right, bottom) = (nb[1], nb[3], nb[4], nb[6]);
                let cb = CellBuffer::from(text.as_str());
                let cell = Cell::new(2, 2);
                let spans: Vec<Span> = Vec::<Span>::from(&cb);
                let span = spans.into_iter().find(|s| s.iter().any(|(c, _)| *c == cell)).expect("span of the centre cell");
                let fb = FragmentBuffer::from(span);
                let frags: Vec<Fragment> = fb.get(&cell).map(|v| v.iter().map(|fs| fs.fragment.clone()).collect()).unwrap_or_default();
                let mut want: Vec<(Point, Point)> = vec![];
                match centre {
                    '-' => want.push((k, o)),
                    '|' => {
                        want.push((c, w));
                        if right == '-' {
                            want.push((m, o));
                        }
                        if left == '-' {
                            want.push((k, m));
                        }
                    }
                    _ => {
                        if top == '|' || top == '+' {
                            want.push((c, m));
                        }
                        if bottom == '|' || bottom == '+' {
                            want.push((m, w));
                        }
                        if left == '-' || left == '+' {
                            want.push((k, m));
                        }
                        if right == '-' || right == '+' {
                            want.push((m, o));
                        }
                    }
                }
                let got_lines: Vec<(Point, Point)> = frags.iter().filter_map(|f| f.as_line().map(|l| (l.start, l.end))).collect();
                let texts: Vec<&Fragment> = frags.iter().filter(|f| f.as_line().is_none()).collect();
                let ok = if want.is_empty() {
                    // a '+' nobody points at is shown as text
                    got_lines.is_empty() && texts.len() == 1 && matches!(texts[0], Fragment::CellText(t) if t.content == "+")
                } else {
                    texts.is_empty() && raster(&got_lines).is_some() && raster(&got_lines) == raster(&want)
                };
                if !ok {
                    println!("BOUNDED-WITNESS centre {:?} neighbours {:?}: fragments {:?}, specified strokes {:?}", centre, nb, frags, want);
                    panic!("strokes of - | + as specified");
                }
                n += 1;
            }
        }
        println!("BOUNDED-CASES {}", n);
    }

    /// C09 S7: the same fragment span is never stored twice in a cell
    #[test]
    fn bounded_no_duplicate_fragment_in_cell() {
        let mut fb = FragmentBuffer::new();
        let cell = Cell::new(3, 4);
        let l = crate::fragment::line(CellGrid::k(), CellGrid::o());
        fb.add_fragment_to_cell(cell, '-', l.clone());
        fb.add_fragment_to_cell(cell, '-', l.clone());
        fb.add_fragment_to_cell(cell, '-', crate::fragment::line(CellGrid::c(), CellGrid::w()));
        let n = fb.get(&cell).map(|v| v.len()).unwrap_or(0);
        if n != 2 {
            println!("BOUNDED-WITNESS cell holds {} fragment spans after adding k-o twice and c-w once", n);
            panic!("no duplicate fragment in a cell");
        }
        // merge_fragment_spans: absolute positions, merged
        let merged = fb.merge_fragment_spans();
        assert!(merged.len() == 2, "two different lines stay two lines");
        println!("BOUNDED-CASES 1");
    }

    fn fragments_of(text: &str) -> Vec<Fragment> {
        let cb = CellBuffer::from(text);
        let spans: Vec<Span> = Vec::<Span>::from(&cb);
        spans.into_iter().flat_map(|sp| FragmentBuffer::from(sp).merge_fragment_spans()).map(|fs| fs.fragment).collect()
    }

    fn grid(rows: usize, cols: usize, puts: &[(usize, usize, char)]) -> String {
        let mut g = vec![vec![' '; cols]; rows];
        for (r, c, ch) in puts {
            g[*r][*c] = *ch;
        }
        g.into_iter().map(|r| r.into_iter().collect::<String>().trim_end().to_string()).collect::<Vec<_>>().join("\n") + "\n"
    }

    /// C14 (a): arrowheads in all eight directions, line lengths 1..4, three offsets
    #[test]
    fn bounded_arrowheads() {
        // (name, step of the line away from the arrow head (dcol, drow), line char, arrow chars)
        let dirs: [(&str, (i32, i32), char, &[char]); 8] = [
            ("right", (-1, 0), '-', &['>']),
            ("left", (1, 0), '-', &['<']),
            ("up", (0, 1), '|', &['^']),
            ("down", (0, -1), '|', &['v', 'V']),
            ("up_left", (1, 1), '\\', &['^']),
            ("up_right", (-1, 1), '/', &['^']),
            ("down_left", (1, -1), '/', &['v', 'V']),
            ("down_right", (-1, -1), '\\', &['v', 'V']),
        ];
        let mut n = 0u64;
        for (name, step, lch, heads) in dirs {
            for head in heads {
                for len in 1..=4i32 {
                    for (ox, oy) in [(6i32, 6i32), (9, 7), (20, 11)] {
                        let mut puts = vec![(oy as usize, ox as usize, *head)];
                        for k in 1..=len {
                            puts.push(((oy + step.1 * k) as usize, (ox + step.0 * k) as usize, lch));
                        }
                        let text = grid(24, 40, &puts);
                        let frags = fragments_of(&text);
                        let polys: Vec<&crate::fragment::Polygon> = frags.iter().filter_map(|f| f.as_polygon()).collect();
                        let lines: Vec<&crate::fragment::Line> = frags.iter().filter_map(|f| f.as_line()).collect();
                        let texts = frags.iter().filter(|f| f.is_cell_text() || f.is_text()).count();
                        let mut why = String::new();
                        let ok = (|| {
                            if polys.len() != 1 || lines.is_empty() || texts != 0 {
                                why = format!("{} polygons, {} lines, {} texts", polys.len(), lines.len(), texts);
                                return false;
                            }
                            let p = polys[0];
                            if !p.is_filled || p.points.len() != 3 {
                                why = "arrow head must be one filled triangle".into();
                                return false;
                            }
                            // the line adjoining the head: the longest one
                            let l = lines.iter().max_by(|a, b| a.start.distance(&a.end).partial_cmp(&b.start.distance(&b.end)).unwrap()).unwrap();
                            // direction of the arrow in drawing units (a cell is 1 x 2)
                            let (ux, uy) = (-(step.0 as f32), -(step.1 as f32) * 2.0);
                            let proj = |q: Point| q.x * ux + q.y * uy;
                            let (near, far) = if proj(l.start) > proj(l.end) { (l.start, l.end) } else { (l.end, l.start) };
                            let cross = |q: Point| (near.x - far.x) * (q.y - far.y) - (near.y - far.y) * (q.x - far.x);
                            let mut pts = p.points.clone();
                            pts.sort_by(|a, b| proj(*b).partial_cmp(&proj(*a)).unwrap());
                            let (tip, b1, b2) = (pts[0], pts[1], pts[2]);
                            if cross(tip).abs() > 1e-3 {
                                why = format!("tip {} is off the axis of the line {} - {}", tip, far, near);
                                return false;
                            }
                            if proj(tip) < proj(near) - 1e-3 || proj(tip) <= proj(b1) || proj(tip) <= proj(b2) {
                                why = format!("tip {} does not lie beyond the end {} of the line, pointing away from it", tip, near);
                                return false;
                            }
                            if !(cross(b1) * cross(b2) < 0.0) {
                                why = format!("base {} , {} does not straddle the axis", b1, b2);
                                return false;
                            }
                            // the head sits in the arrow character's cell
                            let cell = Cell::new(ox, oy);
                            let (lo, hi) = (cell.top_left_most(), cell.bottom_right_most());
                            if !(tip.x >= lo.x - 0.5 && tip.x <= hi.x + 0.5 && tip.y >= lo.y - 1.0 && tip.y <= hi.y + 1.0) {
                                why = format!("tip {} is not at the arrow character's cell {}", tip, cell);
                                return false;
                            }
                            true
                        })();
                        if !ok {
                            println!("BOUNDED-WITNESS arrow {} head {:?} length {} at ({},{}): {}\n{}", name, head, len, ox, oy, why, text.trim_matches('\n'));
                            panic!("arrow heads sit and point where the text says");
                        }
                        n += 1;
                    }
                }
            }
        }
        println!("BOUNDED-CASES {}", n);
    }

    /// C14 (b): bullets * o O attached to a horizontal or vertical line become a circle marker of the
    /// documented kind whose marked end is the centre of the bullet's cell; the bullet is not shown as text
    #[test]
    fn bounded_bullets() {
        use crate::fragment::Marker;
        let kinds = [('*', Marker::Circle), ('o', Marker::OpenCircle), ('O', Marker::BigOpenCircle)];
        let mut n = 0u64;
        for (ch, marker) in kinds {
            for (step, lch) in [((1i32, 0i32), '-'), ((-1, 0), '-'), ((0, 1), '|'), ((0, -1), '|'), ((1, 1), '\\'), ((-1, -1), '\\'), ((1, -1), '/'), ((-1, 1), '/')] {
                for len in 2..=4i32 {
                    for (ox, oy) in [(6i32, 6i32), (15, 9)] {
                        let mut puts = vec![(oy as usize, ox as usize, ch)];
                        for k in 1..=len {
                            puts.push(((oy + step.1 * k) as usize, (ox + step.0 * k) as usize, lch));
                        }
                        let text = grid(24, 40, &puts);
                        let frags = fragments_of(&text);
                        let centre = Cell::new(ox, oy).m();
                        let marked: Vec<&crate::fragment::MarkerLine> = frags.iter().filter_map(|f| match f { Fragment::MarkerLine(m) => Some(m), _ => None }).collect();
                        let texts = frags.iter().filter(|f| f.is_cell_text() || f.is_text()).count();
                        let ok = marked.len() == 1
                            && marked[0].end_marker == Some(marker.clone())
                            && marked[0].start_marker.is_none()
                            && marked[0].line.end.x == centre.x && marked[0].line.end.y == centre.y
                            && texts == 0
                            && frags.iter().all(|f| f.as_circle().is_none());
                        if !ok {
                            println!("BOUNDED-WITNESS bullet {:?} with line step {:?} length {} at ({},{}): fragments {:?}", ch, step, len, ox, oy, frags);
                            panic!("bullets become circle markers at the centre of their cell");
                        }
                        n += 1;
                    }
                }
            }
        }
        println!("BOUNDED-CASES {}", n);
    }

    /// C14 (c): rounded corners of an outline (a stub keeps it from being endorsed as a rect): four arcs whose
    /// end points coincide with ends of the adjoining lines and whose centre lies on the inner side
    #[test]
    fn bounded_rounded_corners() {
        // (corner characters, inset): inset 0 = corners above / below the sides; inset 1 = the wide style
        //   .----.
        //  |      |       with the corners one column inside the sides
        //   '----'
        let styles: [([char; 4], usize); 3] = [(['.', '.', '\'', '\''], 0), ([',', '.', '`', '\''], 0), (['.', '.', '\'', '\''], 1)];
        let mut n = 0u64;
        for (c, inset) in styles {
            for w in 1..=8usize {
                for h in 1..=5usize {
                    for (ox, oy) in [(2usize, 1usize), (11, 4)] {
                        let (left, right) = (ox, ox + w + 1 + 2 * inset);
                        let mut puts = vec![(oy, left + inset, c[0]), (oy, right - inset, c[1]), (oy + h + 1, left + inset, c[2]), (oy + h + 1, right - inset, c[3])];
                        for k in (left + inset + 1)..(right - inset) {
                            puts.push((oy, k, '-'));
                            puts.push((oy + h + 1, k, '-'));
                        }
                        for k in 1..=h {
                            puts.push((oy + k, left, '|'));
                            puts.push((oy + k, right, '|'));
                        }
                        // the stub: a line attached to the right side, so that the outline is not endorsed as a rect
                        puts.push((oy + 1, right + 1, '-'));
                        puts.push((oy + 1, right + 2, '-'));
                        let text = grid(24, 40, &puts);
                        let frags = fragments_of(&text);
                        let arcs: Vec<&crate::fragment::Arc> = frags.iter().filter_map(|f| f.as_arc()).collect();
                        let lines: Vec<&crate::fragment::Line> = frags.iter().filter_map(|f| f.as_line()).collect();
                        let (x0, y0) = (left as f32 + 0.5, oy as f32 * 2.0 + 1.0);
                        let (x1, y1) = (right as f32 + 0.5, (oy + h + 1) as f32 * 2.0 + 1.0);
                        let mut why = String::new();
                        let ok = (|| {
                            if arcs.len() != 4 {
                                why = format!("{} arcs", arcs.len());
                                return false;
                            }
                            for a in &arcs {
                                for e in [a.start, a.end] {
                                    if !lines.iter().any(|l| l.has_endpoint(e)) {
                                        why = format!("arc end {} meets no line end", e);
                                        return false;
                                    }
                                }
                                let ctr = a.center();
                                // strictly inside the box spanned by the sides and the horizontal edges, and on
                                // the box side of the chord (the corner bulges outward)
                                let inside = ctr.x > x0 - 1e-3 && ctr.x < x1 + 1e-3 && ctr.y > y0 - 1e-3 && ctr.y < y1 + 1e-3;
                                let mid = Point::new((a.start.x + a.end.x) / 2.0, (a.start.y + a.end.y) / 2.0);
                                let box_c = Point::new((x0 + x1) / 2.0, (y0 + y1) / 2.0);
                                let towards_box = (ctr.x - mid.x) * (box_c.x - mid.x) + (ctr.y - mid.y) * (box_c.y - mid.y) > 0.0;
                                if !inside || !towards_box {
                                    why = format!("centre {} of arc {} is not on the inner side of the outline ({},{})-({},{})", ctr, a, x0, y0, x1, y1);
                                    return false;
                                }
                            }
                            true
                        })();
                        if !ok {
                            println!("BOUNDED-WITNESS rounded outline {:?} inset {} {}x{} at ({},{}): {}\n{}", c, inset, w, h, ox, oy, why, text.trim_matches('\n'));
                            panic!("rounded corners are continuous and bulge outward");
                        }
                        n += 1;
                    }
                }
            }
        }
        println!("BOUNDED-CASES {}", n);
    }

    /// C09: straight runs of line characters become one line (two parallel ones for '='), dashed if the
    /// character is a dashed one - through the real tables and the real merge
    #[test]
    fn bounded_straight_runs() {
        let thorough = std::env::var("VERIF_TIER").map(|v| v == "thorough").unwrap_or(false);
        let maxlen = if thorough { 400usize } else { 40 };
        // (char, step (dcol, drow), number of lines, dashed)
        let kinds: [(char, (usize, usize), usize, bool); 9] = [
            ('-', (1, 0), 1, false), ('~', (1, 0), 1, true), ('_', (1, 0), 1, false), ('=', (1, 0), 2, false),
            ('|', (0, 1), 1, false), (':', (0, 1), 1, true), ('!', (0, 1), 1, true), ('/', (0, 1), 1, false), ('\\', (0, 1), 1, false),
        ];
        let mut n = 0u64;
        for (ch, step, nlines, dashed) in kinds {
            let mut len = 1usize;
            while len <= maxlen {
                for (ox, oy) in [(0usize, 0usize), (5, 3)] {
                    if (ch == ':' || ch == '!') && len < 2 {
                        continue; // a lone ':' or '!' is punctuation
                    }
                    let mut rows: Vec<String> = vec![];
                    if step.1 == 0 {
                        rows = vec![String::new(); oy];
                        rows.push(format!("{}{}", " ".repeat(ox), std::iter::repeat(ch).take(len).collect::<String>()));
                    } else {
                        rows = vec![String::new(); oy];
                        for k in 0..len {
                            let col = match ch { '/' => ox + len - 1 - k, '\\' => ox + k, _ => ox };
                            rows.push(format!("{}{}", " ".repeat(col), ch));
                        }
                    }
                    let text = rows.join("\n") + "\n";
                    let frags = fragments_of(&text);
                    let lines: Vec<&crate::fragment::Line> = frags.iter().filter_map(|f| f.as_line()).collect();
                    let ok = frags.len() == nlines && lines.len() == nlines && lines.iter().all(|l| l.is_broken == dashed)
                        && {
                            // the line spans the whole run
                            let l = lines[0];
                            let (dx, dy) = ((l.end.x - l.start.x).abs(), (l.end.y - l.start.y).abs());
                            match ch {
                                '-' | '~' | '_' | '=' => dx == len as f32 && dy == 0.0,
                                '|' | ':' | '!' => dx == 0.0 && dy == 2.0 * len as f32,
                                _ => dx == len as f32 && dy == 2.0 * len as f32,
                            }
                        };
                    if !ok {
                        println!("BOUNDED-WITNESS run of {} x {:?} at ({},{}): {} fragments: {:?}", len, ch, ox, oy, frags.len(), &frags[..frags.len().min(4)]);
                        panic!("a straight run is one line");
                    }
                    n += 1;
                }
                len = if len < 12 { len + 1 } else { len * 2 - 3 };
            }
        }
        println!("BOUNDED-CASES {}", n);
    }

    /// C09 S4 (bounded stand-in): what `merge_fragment_spans` returns is a fix-point of merging - no earlier
    /// fragment merges with a later one - for every small grid over the line alphabet
    #[test]
    fn bounded_merge_fragment_spans_fixpoint() {
        let alphabet = [' ', '-', '|', '+', '_'];
        let mut n = 0u64;
        for (rows, cols) in [(2usize, 4usize), (4, 2), (3, 3)] {
            let cells = rows * cols;
            let total = 5u32.pow(cells as u32);
            // 3x3 has 1.9 M grids: take every 7th in the quick tier
            let step = if cells == 9 && !std::env::var("VERIF_TIER").map(|v| v == "thorough").unwrap_or(false) { 7 } else { 1 };
            let mut code = 0u32;
            while code < total {
                let mut text = String::new();
                let mut cd = code;
                for r in 0..rows {
                    for _c in 0..cols {
                        text.push(alphabet[(cd % 5) as usize]);
                        cd /= 5;
                    }
                    if r + 1 < rows {
                        text.push('\n');
                    }
                }
                let cb = CellBuffer::from(text.as_str());
                for sp in Vec::<Span>::from(&cb) {
                    let frags = FragmentBuffer::from(sp).merge_fragment_spans();
                    for i in 0..frags.len() {
                        for j in 0..i {
                            if frags[j].merge(&frags[i]).is_some() {
                                println!("BOUNDED-WITNESS grid {:?}: fragments {} and {} of the merged list still merge: {} / {}", text, j, i, frags[j].fragment, frags[i].fragment);
                                panic!("merge_fragment_spans returns a fix-point");
                            }
                        }
                    }
                }
                n += 1;
                code += step;
            }
        }
        println!("BOUNDED-CASES {}", n);
    }
}
