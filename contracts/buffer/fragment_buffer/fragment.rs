//! Contracts for `buffer/fragment_buffer/fragment.rs` (dispatch over the fragment variants).
use super::*;
use crate::__verif::h::*;

#[cfg(kani)]
pub(crate) mod k {
    use super::*;
    use crate::__verif::kg::*;

    /// a fragment of any of the six geometric variants that carry no heap data
    /// (Polygon / CellText / Text are covered by their own obligations)
    fn plain_fragment(k: u8) -> Fragment {
        match k {
            0 => Fragment::Line(any_line()),
            1 => Fragment::MarkerLine(MarkerLine::new(any_point(), any_point(), kani::any(), any_marker(), any_marker())),
            2 => Fragment::Circle(any_circle()),
            3 => Fragment::Arc(any_arc()),
            _ => Fragment::Rect(any_rect()),
        }
    }

    fn pts(f: &Fragment) -> (Point, Point, f32) {
        match f {
            Fragment::Line(l) => (l.start, l.end, 0.0),
            Fragment::MarkerLine(m) => (m.line.start, m.line.end, 0.0),
            Fragment::Circle(c) => (c.center, c.center, c.radius),
            Fragment::Arc(a) => (a.start, a.end, a.radius),
            Fragment::Rect(r) => (r.start, r.end, match r.radius { Some(v) => v, None => 1.0 }),
            _ => (Point::new(0.0, 0.0), Point::new(0.0, 0.0), 0.0),
        }
    }

    fn rank(f: &Fragment) -> u8 {
        match f {
            Fragment::Line(_) => 0,
            Fragment::MarkerLine(_) => 1,
            Fragment::Circle(_) => 2,
            Fragment::Arc(_) => 3,
            Fragment::Polygon(_) => 4,
            Fragment::Rect(_) => 5,
            Fragment::CellText(_) => 6,
            Fragment::Text(_) => 7,
        }
    }

    fn flags(f: &Fragment) -> (bool, bool, bool, bool, Option<Marker>, Option<Marker>) {
        match f {
            Fragment::Line(l) => (l.is_broken, false, false, false, None, None),
            Fragment::MarkerLine(m) => (m.line.is_broken, false, false, false, m.start_marker.clone(), m.end_marker.clone()),
            Fragment::Circle(c) => (false, c.is_filled, false, false, None, None),
            Fragment::Arc(a) => (false, false, a.major_flag, a.sweep_flag, None, None),
            Fragment::Rect(r) => (r.is_broken, r.is_filled, r.radius.is_some(), false, None, None),
            _ => (false, false, false, false, None, None),
        }
    }

    /// C11: Fragment::scale dispatches to the variant's scale: same variant, every length times s,
    /// every flag / marker unchanged.
    fn scale_dispatch(k: u8) {
        let f = plain_fragment(k);
        let s: f32 = kani::any();
        let (a, b, r) = pts(&f);
        kani::assume(fb_point(a) && fb_point(b) && finite_bounded(r) && valid_scale(s));
        kani::cover!(true);
        let g = f.scale(s);
        assert!(rank(&g) == rank(&f), "same variant");
        let (a2, b2, r2) = pts(&g);
        assert!(a2.x.to_bits() == (a.x * s).to_bits() && a2.y.to_bits() == (a.y * s).to_bits()
            && b2.x.to_bits() == (b.x * s).to_bits() && b2.y.to_bits() == (b.y * s).to_bits(), "points scaled");
        assert!(r2.to_bits() == (r * s).to_bits(), "radius scaled");
        assert!(flags(&g) == flags(&f), "flags and markers unchanged");
    }

    /// C06: Fragment::absolute_position dispatches to the variant: same variant, exact translation
    fn absolute_position_dispatch(k: u8) {
        let f = plain_fragment(k);
        let c = any_valid_cell();
        let (a, b, r) = pts(&f);
        kani::assume(grid_lt(a, 16.0) && grid_lt(b, 16.0) && finite_bounded(r));
        kani::cover!(true);
        let g = f.absolute_position(c);
        assert!(rank(&g) == rank(&f), "same variant");
        let (a2, b2, r2) = pts(&g);
        let (ox, oy) = (c.x as f32, c.y as f32 * 2.0);
        assert!(a2.x == a.x + ox && a2.y == a.y + oy && b2.x == b.x + ox && b2.y == b.y + oy, "points translated");
        assert!(r2.to_bits() == r.to_bits() && flags(&g) == flags(&f), "radius, flags, markers unchanged");
    }

    /// C03 / C09: merge dispatch - the only geometric merges are (Line,Line) through Line::merge
    /// and (Line,Circle) / (Circle,Line) through merge_circle; everything else is None.
    pub(crate) static mut LINE_MERGE: Option<(u32, u32, u32, u32, bool)> = None;
    pub(crate) fn stub_line_merge(_a: &Line, _b: &Line) -> Option<Line> {
        unsafe { LINE_MERGE.map(|(a, b, c, d, e)| Line::new_noswap(Point::new(f32::from_bits(a), f32::from_bits(b)), Point::new(f32::from_bits(c), f32::from_bits(d)), e)) }
    }
    pub(crate) static mut CIRCLE_MERGE: bool = false;
    pub(crate) fn stub_merge_circle(l: &Line, c: &Circle) -> Option<Fragment> {
        if unsafe { CIRCLE_MERGE } {
            Some(crate::fragment::marker_line(l.start, c.center, l.is_broken, None, Some(Marker::Circle)))
        } else {
            None
        }
    }

    #[kani::proof]
    #[kani::stub(crate::buffer::fragment_buffer::fragment::line::Line::merge, stub_line_merge)]
    #[kani::stub(crate::buffer::fragment_buffer::fragment::line::Line::merge_circle, stub_merge_circle)]
    #[kani::unwind(7)]
    pub(crate) fn check_fragment_merge_dispatch() {
        let mk = |k: u8| match k {
            0 => Fragment::Line(Line::new_noswap(Point::new(0.0, 0.0), Point::new(1.0, 0.0), false)),
            1 => Fragment::MarkerLine(MarkerLine::new(Point::new(0.0, 0.0), Point::new(1.0, 0.0), false, None, Some(Marker::Arrow))),
            2 => Fragment::Circle(Circle::new(Point::new(1.0, 0.0), 0.5, false)),
            3 => Fragment::Arc(Arc::new(Point::new(0.0, 0.0), Point::new(1.0, 1.0), 1.0)),
            _ => Fragment::Rect(Rect::new(Point::new(0.0, 0.0), Point::new(1.0, 1.0), false, false)),
        };
        let lm: Option<(u32, u32, u32, u32, bool)> = kani::any();
        let cm: bool = kani::any();
        unsafe {
            LINE_MERGE = lm;
            CIRCLE_MERGE = cm;
        }
        kani::cover!(true);
        let mut kf = 0u8;
        while kf < 5 {
        let mut kg = 0u8;
        while kg < 5 {
        let f = mk(kf);
        let g = mk(kg);
        let r = f.merge(&g);
        match (rank(&f), rank(&g)) {
            (0, 0) => {
                kani::cover!(r.is_some());
                assert!(r.is_some() == lm.is_some(), "(Line,Line) merges iff Line::merge does");
                if let Some(m) = &r {
                    assert!(rank(m) == 0, "and the result is a Line");
                }
            }
            (0, 2) | (2, 0) => {
                assert!(r.is_some() == cm, "(Line,Circle) merges iff merge_circle does");
                if let Some(m) = &r {
                    assert!(rank(m) == 1, "and the result is a MarkerLine");
                }
            }
            _ => assert!(r.is_none(), "no other pair of geometric fragments merges"),
        }
        kg += 1;
        }
        kf += 1;
        }
    }

    /// C04 T1: a one-character text fragment is exactly that character at the local cell (0,0)
    #[kani::proof]
    #[kani::unwind(6)]
    pub(crate) fn check_cell_text_all_chars() {
        let ch: char = kani::any();
        kani::cover!(true);
        match cell_text(ch) {
            Fragment::CellText(t) => {
                assert!(t.start == Cell::new(0, 0), "local cell (0,0)");
                assert!(str_is_char(&t.content, ch), "content is exactly the character");
            }
            _ => assert!(false, "cell_text builds a CellText"),
        }
    }

    /// C10 A4 / C16: can_fit is containment of bounding boxes (lines, rects, circles, arcs)
    /// opaque bounds: `can_fit` is verified against the *results* of `bounds()` (whose own
    /// contracts are the N4 obligations), for any two fragments
    pub(crate) static mut BOUNDS: [(f32, f32, f32, f32); 2] = [(0.0, 0.0, 0.0, 0.0); 2];
    pub(crate) fn stub_fragment_bounds(f: &Fragment) -> (Point, Point) {
        let b = unsafe { if matches!(f, Fragment::Rect(_)) { BOUNDS[0] } else { BOUNDS[1] } };
        (Point::new(b.0, b.1), Point::new(b.2, b.3))
    }

    #[kani::proof]
    #[kani::stub(<crate::buffer::fragment_buffer::fragment::Fragment as crate::buffer::fragment_buffer::fragment::Bounds>::bounds, stub_fragment_bounds)]
    pub(crate) fn check_fragment_can_fit() {
        let b0: (f32, f32, f32, f32) = kani::any();
        let b1: (f32, f32, f32, f32) = kani::any();
        kani::assume(finite_bounded(b0.0) && finite_bounded(b0.1) && finite_bounded(b0.2) && finite_bounded(b0.3));
        kani::assume(finite_bounded(b1.0) && finite_bounded(b1.1) && finite_bounded(b1.2) && finite_bounded(b1.3));
        unsafe { BOUNDS = [b0, b1] };
        kani::cover!(true);
        let container = Fragment::Rect(Rect::new(Point::new(0.0, 0.0), Point::new(1.0, 1.0), false, false));
        let content = Fragment::Line(Line::new_noswap(Point::new(0.0, 0.0), Point::new(1.0, 0.0), false));
        let fits = b0.0 <= b1.0 && b0.1 <= b1.1 && b0.2 >= b1.2 && b0.3 >= b1.3;
        assert!(container.can_fit(&content) == fits, "can_fit = the container's bounds contain the content's bounds");
    }

    #[kani::proof]
    #[kani::solver(cvc5)]
    pub(crate) fn check_fragment_scale_dispatch_line() {
        scale_dispatch(0);
    }

    #[kani::proof]
    pub(crate) fn check_fragment_absolute_position_dispatch_line() {
        absolute_position_dispatch(0);
    }


    #[kani::proof]
    #[kani::solver(cvc5)]
    pub(crate) fn check_fragment_scale_dispatch_marker_line() {
        scale_dispatch(1);
    }

    #[kani::proof]
    pub(crate) fn check_fragment_absolute_position_dispatch_marker_line() {
        absolute_position_dispatch(1);
    }


    #[kani::proof]
    #[kani::solver(cvc5)]
    pub(crate) fn check_fragment_scale_dispatch_circle() {
        scale_dispatch(2);
    }

    #[kani::proof]
    pub(crate) fn check_fragment_absolute_position_dispatch_circle() {
        absolute_position_dispatch(2);
    }


    #[kani::proof]
    #[kani::solver(cvc5)]
    pub(crate) fn check_fragment_scale_dispatch_arc() {
        scale_dispatch(3);
    }

    #[kani::proof]
    pub(crate) fn check_fragment_absolute_position_dispatch_arc() {
        absolute_position_dispatch(3);
    }


    #[kani::proof]
    #[kani::solver(cvc5)]
    pub(crate) fn check_fragment_scale_dispatch_rect() {
        let q = any_rect();
        let s: f32 = kani::any();
        kani::assume(super::rect::__verif::fb_rect(&q) && valid_scale(s));
        kani::cover!(true);
        let f = Fragment::Rect(Rect { start: q.start, end: q.end, is_filled: q.is_filled, radius: q.radius, is_broken: q.is_broken });
        let g = f.scale(s);
        let r = g.as_rect();
        assert!(r.is_some(), "same variant");
        assert!(super::rect::__verif::post_rect_scale(&q, s, r.unwrap()), "post_rect_scale through the dispatch");
    }

    #[kani::proof]
    pub(crate) fn check_fragment_absolute_position_dispatch_rect() {
        absolute_position_dispatch(4);
    }


    /// C15 / C03 / C04: a text fragment (plain or quoted) never becomes or joins geometry
    #[kani::proof]
    #[kani::unwind(8)]
    #[kani::solver(kissat)]
    pub(crate) fn check_fragment_celltext_dispatch() {
        let c = any_valid_cell();
        let d = any_valid_cell();
        let s: f32 = kani::any();
        kani::assume(valid_scale(s));
        kani::cover!(true);
        let t = Fragment::CellText(CellText::new(c, String::from("é-")));
        // scale: the text anchored at q of its cell, then scaled; still text, same content
        match t.scale(s) {
            Fragment::Text(x) => {
                assert!(x.start.x.to_bits() == ((c.x as f32 + 0.25) * s).to_bits() && x.start.y.to_bits() == ((c.y as f32 * 2.0 + 1.5) * s).to_bits(), "anchor = q * s");
                assert!(str_eq_n::<4>(&x.text, "é-"), "content verbatim");
            }
            _ => assert!(false, "a scaled cell text is a text"),
        }
        match t.absolute_position(d) {
            Fragment::CellText(x) => assert!(x.start.x == c.x + d.x && x.start.y == c.y + d.y && str_eq_n::<4>(&x.content, "é-"), "moved by the cell, content verbatim"),
            _ => assert!(false, "still a cell text"),
        }
        // the same through the span wrapper (this is the call the renderer makes)
        let fs = crate::buffer::fragment_buffer::FragmentSpan::new(crate::buffer::Span::new(c, 'é'), t.clone());
        match fs.scale(s).fragment {
            Fragment::Text(x) => assert!(x.start.x.to_bits() == ((c.x as f32 + 0.25) * s).to_bits() && str_eq_n::<4>(&x.text, "é-"), "FragmentSpan::scale converts and scales the text too"),
            _ => assert!(false, "a scaled cell text is a text, also inside a FragmentSpan"),
        }
        assert!(!t.is_broken(), "text is never dashed");
        let mut k = 0u8;
        while k < 5 {
            let g = plain_fragment_concrete(k);
            assert!(t.merge(&g).is_none() && g.merge(&t).is_none(), "text never merges with geometry");
            assert!(!t.is_contacting(&g) && !g.is_contacting(&t), "text never contacts geometry");
            k += 1;
        }
    }

    /// contact dispatch: which pairs of fragments can be grouped at all, and through which predicate
    pub(crate) static mut CONTACT: [bool; 4] = [false; 4];
    pub(crate) fn stub_line_touching(_a: &Line, _b: &Line) -> bool {
        unsafe { CONTACT[0] }
    }
    pub(crate) fn stub_line_touching_arc(_a: &Line, _b: &Arc) -> bool {
        unsafe { CONTACT[1] }
    }
    pub(crate) fn stub_line_touching_circle(_a: &Line, _b: &Circle) -> bool {
        unsafe { CONTACT[2] }
    }
    pub(crate) fn stub_arc_touching(_a: &Arc, _b: &Arc) -> bool {
        unsafe { CONTACT[3] }
    }

    #[kani::proof]
    #[kani::unwind(7)]
    #[kani::stub(crate::buffer::fragment_buffer::fragment::line::Line::is_touching, stub_line_touching)]
    #[kani::stub(crate::buffer::fragment_buffer::fragment::line::Line::is_touching_arc, stub_line_touching_arc)]
    #[kani::stub(crate::buffer::fragment_buffer::fragment::line::Line::is_touching_circle, stub_line_touching_circle)]
    #[kani::stub(crate::buffer::fragment_buffer::fragment::arc::Arc::is_touching, stub_arc_touching)]
    pub(crate) fn check_fragment_contact_dispatch() {
        let c: [bool; 4] = kani::any();
        unsafe { CONTACT = c };
        kani::cover!(true);
        let mut kf = 0u8;
        while kf < 5 {
            let mut kg = 0u8;
            while kg < 5 {
                let (f, g) = (plain_fragment_concrete(kf), plain_fragment_concrete(kg));
                let want = match (kf, kg) {
                    (0, 0) => c[0],          // line - line: Line::is_touching
                    (0, 3) | (3, 0) => c[1], // line - arc: a shared end point
                    (0, 2) | (2, 0) => c[2], // line - circle
                    (3, 3) => c[3],          // arc - arc
                    _ => false,              // marker lines, rects and every other pair never group
                };
                assert!(f.is_contacting(&g) == want, "contact dispatch");
                kg += 1;
            }
            kf += 1;
        }
    }

    fn plain_fragment_concrete(k: u8) -> Fragment {
        match k {
            0 => Fragment::Line(Line::new_noswap(Point::new(0.0, 0.0), Point::new(1.0, 0.0), false)),
            1 => Fragment::MarkerLine(MarkerLine::new(Point::new(0.0, 0.0), Point::new(1.0, 0.0), false, None, Some(Marker::Arrow))),
            2 => Fragment::Circle(Circle::new(Point::new(1.0, 0.0), 0.5, false)),
            3 => Fragment::Arc(Arc::new(Point::new(0.0, 0.0), Point::new(1.0, 1.0), 1.0)),
            _ => Fragment::Rect(Rect::new(Point::new(0.0, 0.0), Point::new(1.0, 1.0), false, false)),
        }
    }
}

#[cfg(all(svgbob_verif, test))]
pub(crate) mod b {
    use super::*;
    use crate::fragment::PolygonTag;
    use sauron::Node;

    fn num(node: &Node<()>, name: &'static str) -> Option<f32> {
        node.first_value(&name).and_then(|v| v.as_f32())
    }
    fn classes(node: &Node<()>) -> Vec<String> {
        let mut out: Vec<String> = vec![];
        if let Some(vals) = node.attribute_value(&"class") {
            for v in vals {
                if let Some(val) = v.get_simple() {
                    out.extend(val.to_string().split_whitespace().map(|s| s.to_string()));
                }
            }
        }
        out.sort();
        out
    }
    fn want_classes(list: &[&str]) -> Vec<String> {
        let mut v: Vec<String> = list.iter().map(|s| s.to_string()).collect();
        v.sort();
        v
    }

    /// renderers: the numeric attributes are exactly the (already scaled) fields, the classes follow the flags
    #[test]
    fn bounded_renderers() {
        let vals = [0.0f32, 0.25, 8.0, 130.5, 1e6];
        let mut n = 0u64;
        for &x0 in &vals {
            for &y0 in &vals {
                for &x1 in &vals {
                    for flag in [false, true] {
                        let (y1, r) = (x0 + 3.0, x1 + 0.5);
                        let fail = |what: &str| {
                            println!("BOUNDED-WITNESS renderer {} for values ({},{},{},{},{},{})", what, x0, y0, x1, y1, r, flag);
                            panic!("renderer attributes");
                        };
                        // line
                        let l = Line::new_noswap(Point::new(x0, y0), Point::new(x1, y1), flag);
                        let node: Node<()> = l.into();
                        if node.tag() != Some(&"line") || num(&node, "x1") != Some(x0) || num(&node, "y1") != Some(y0) || num(&node, "x2") != Some(x1)
                            || num(&node, "y2") != Some(y1) || classes(&node) != want_classes(&[if flag { "broken" } else { "solid" }]) {
                            fail("line");
                        }
                        // marker line: the line plus start/end marker classes
                        let ml = MarkerLine::new(Point::new(x0, y0), Point::new(x1, y1), flag, if flag { Some(Marker::Circle) } else { None }, Some(Marker::Arrow));
                        let node: Node<()> = ml.into();
                        let mut want = vec![if flag { "broken" } else { "solid" }, "end_marked_arrow"];
                        if flag {
                            want.push("start_marked_circle");
                        }
                        if node.tag() != Some(&"line") || num(&node, "x1") != Some(x0) || num(&node, "y1") != Some(y0) || num(&node, "x2") != Some(x1)
                            || num(&node, "y2") != Some(y1) || classes(&node) != want_classes(&want) {
                            fail("marker line");
                        }
                        // a zero-length marker line (a bullet at the start of a run) is rendered where it is, like any other
                        for (sm, em) in [(Some(Marker::Circle), None), (None, Some(Marker::Circle)), (Some(Marker::BigOpenCircle), Some(Marker::Arrow))] {
                            let z = MarkerLine::new(Point::new(x0, y0), Point::new(x0, y0), flag, sm, em);
                            let node: Node<()> = z.into();
                            if node.tag() != Some(&"line") || num(&node, "x1") != Some(x0) || num(&node, "y1") != Some(y0) || num(&node, "x2") != Some(x0) || num(&node, "y2") != Some(y0) {
                                fail("zero-length marker line");
                            }
                        }
                        // circle
                        let c = Circle::new(Point::new(x0, y0), r, flag);
                        let node: Node<()> = c.into();
                        if node.tag() != Some(&"circle") || num(&node, "cx") != Some(x0) || num(&node, "cy") != Some(y0) || num(&node, "r") != Some(r)
                            || classes(&node) != want_classes(&[if flag { "filled" } else { "nofill" }]) {
                            fail("circle");
                        }
                        // rect (start <= end as the constructor leaves it)
                        let rc = Rect::rounded_new(Point::new(x0, y0), Point::new(x0 + x1, y0 + y1), flag, r, !flag);
                        let node: Node<()> = rc.clone().into();
                        if node.tag() != Some(&"rect") || num(&node, "x") != Some(rc.start.x) || num(&node, "y") != Some(rc.start.y)
                            || num(&node, "width") != Some(rc.end.x - rc.start.x) || num(&node, "height") != Some(rc.end.y - rc.start.y) || num(&node, "rx") != Some(r)
                            || classes(&node) != want_classes(&[if !flag { "broken" } else { "solid" }, if flag { "filled" } else { "nofill" }]) {
                            fail("rounded rect");
                        }
                        let sharp: Node<()> = Rect::new(Point::new(x0, y0), Point::new(x0 + x1, y0 + y1), false, false).into();
                        if num(&sharp, "rx") != Some(0.0) {
                            fail("sharp rect rx");
                        }
                        // arc: M sx,sy A r,r 0,major,sweep ex,ey
                        let a = Arc::new_with_sweep(Point::new(x0, y0), Point::new(x1, y1), r, flag);
                        let want_d = format!("M {},{} A {},{} 0,{},{} {},{}", a.start.x, a.start.y, r, r, a.major_flag as u8, a.sweep_flag as u8, a.end.x, a.end.y);
                        let node: Node<()> = a.into();
                        if node.tag() != Some(&"path") || node.first_value(&"d").map(|v| v.to_string()) != Some(want_d) || classes(&node) != want_classes(&["nofill"]) {
                            fail("arc");
                        }
                        // polygon
                        let p = Polygon::new(vec![Point::new(x0, y0), Point::new(x1, y1), Point::new(r, x0)], flag, vec![PolygonTag::ArrowRight]);
                        let node: Node<()> = p.into();
                        let want_pts = format!("{},{} {},{} {},{}", x0, y0, x1, y1, r, x0);
                        if node.tag() != Some(&"polygon") || node.first_value(&"points").map(|v| v.to_string()) != Some(want_pts)
                            || classes(&node) != want_classes(&[if flag { "filled" } else { "nofill" }]) {
                            fail("polygon");
                        }
                        n += 1;
                    }
                }
            }
        }
        println!("BOUNDED-CASES {}", n);
    }

    /// C02 text sink: a text element has x, y and exactly one child, the escaped text
    #[test]
    fn bounded_text_node() {
        let alphabet = ['<', '&', '>', '"', '\'', 'a', ';', '#', 'é', '一', '\0', '\u{1}', '\u{c}', '\u{7f}', '\u{fffe}', '\u{ffff}', ' '];
        let mut n = 0u64;
        for w in crate::buffer::cell_buffer::__verif::b::words(&alphabet, 3) {
            if w.is_empty() {
                continue;
            }
            let t = Text::new(Point::new(2.0, 12.0), w.clone());
            let node: Node<()> = t.into();
            let want: String = w.chars().map(|c| match c {
                '<' => "&lt;".to_string(),
                '>' => "&gt;".to_string(),
                '&' => "&amp;".to_string(),
                '\'' => "&#39;".to_string(),
                '"' => "&quot;".to_string(),
                c if !crate::__verif::h::xml_char(c) => String::new(),
                c => c.to_string(),
            }).collect();
            let ch = node.children();
            let ok = node.tag() == Some(&"text") && num(&node, "x") == Some(2.0) && num(&node, "y") == Some(12.0)
                && ch.len() == 1 && ch[0].as_text() == Some(want.as_str());
            // the same through CellText
            let ct: Node<()> = CellText::new(Cell::new(0, 0), w.clone()).into();
            let ok2 = ct.children().len() == 1 && ct.children()[0].as_text() == Some(want.as_str());
            if !ok || !ok2 {
                println!("BOUNDED-WITNESS text node for {:?}: {:?}", w, ch.first().and_then(|c| c.as_text()));
                panic!("text node = escaped text");
            }
            n += 1;
        }
        println!("BOUNDED-CASES {}", n);
    }

    /// C11 (complement of the known finding about `Text::bounds`): for every geometric fragment the
    /// bounding box scales with the fragment: bounds(scale(f, s)) = scale(bounds(f), s)
    #[test]
    fn bounded_bounds_commute_with_scale() {
        let vals = [0.0f32, 0.25, 1.5, 8.0, 130.5];
        let mut n = 0u64;
        for &x0 in &vals {
            for &y0 in &vals {
                for &x1 in &vals {
                    for scale in [0.5f32, 1.0, 3.0, 8.0, 10.0, 20.0, 37.5] {
                        let y1 = x0 + 3.0;
                        let frags = [
                            Fragment::Line(Line::new(Point::new(x0, y0), Point::new(x1, y1), false)),
                            Fragment::MarkerLine(MarkerLine::new(Point::new(x0, y0), Point::new(x1, y1), false, None, Some(Marker::Arrow))),
                            Fragment::Circle(Circle::new(Point::new(x0, y0), x1 + 0.5, false)),
                            Fragment::Arc(Arc::new(Point::new(x0, y0), Point::new(x1, y1), 2.0)),
                            Fragment::Rect(Rect::new(Point::new(x0, y0), Point::new(x1, y1), false, false)),
                            Fragment::Polygon(Polygon::new(vec![Point::new(x0, y0), Point::new(x1, y1), Point::new(y1, x0)], true, vec![PolygonTag::ArrowLeft])),
                        ];
                        for f in frags {
                            let (lo, hi) = f.bounds();
                            let (slo, shi) = f.scale(scale).bounds();
                            let close = |a: f32, b: f32| (a - b).abs() <= 1e-4 * (1.0 + a.abs());
                            if !(close(slo.x, lo.x * scale) && close(slo.y, lo.y * scale) && close(shi.x, hi.x * scale) && close(shi.y, hi.y * scale)) {
                                println!("BOUNDED-WITNESS bounds of {:?} at scale {}: ({},{})..({},{}) vs scaled bounds ({},{})..({},{})", f, scale,
                                    slo.x, slo.y, shi.x, shi.y, lo.x * scale, lo.y * scale, hi.x * scale, hi.y * scale);
                                panic!("bounds commute with scale");
                            }
                            n += 1;
                        }
                    }
                }
            }
        }
        println!("BOUNDED-CASES {}", n);
    }
}
