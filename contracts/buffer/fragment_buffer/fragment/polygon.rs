//! Contracts for `buffer/fragment_buffer/fragment/polygon.rs`.
use super::*;
use crate::__verif::h::*;

#[cfg(kani)]
pub(crate) mod k {
    use super::*;
    use crate::__verif::kg::*;

    fn any_tag() -> PolygonTag {
        let k: u8 = kani::any();
        match k % 9 {
            0 => PolygonTag::ArrowTopLeft,
            1 => PolygonTag::ArrowTop,
            2 => PolygonTag::ArrowTopRight,
            3 => PolygonTag::ArrowLeft,
            4 => PolygonTag::ArrowRight,
            5 => PolygonTag::ArrowBottomLeft,
            6 => PolygonTag::ArrowBottom,
            7 => PolygonTag::ArrowBottomRight,
            _ => PolygonTag::DiamondBullet,
        }
    }

    /// polygons of the tables have 3 points (arrow heads) or 4 points (diamonds)
    fn check_scale_n(p: Polygon, n: usize) {
        let s: f32 = kani::any();
        kani::assume(valid_scale(s));
        let mut i = 0;
        while i < n {
            kani::assume(fb_point(p.points[i]));
            i += 1;
        }
        kani::cover!(true);
        let r = p.scale(s);
        assert!(r.points.len() == n, "same number of points");
        let mut i = 0;
        while i < n {
            assert!(r.points[i].x.to_bits() == (p.points[i].x * s).to_bits() && r.points[i].y.to_bits() == (p.points[i].y * s).to_bits(), "point scaled");
            i += 1;
        }
        assert!(r.is_filled == p.is_filled && r.tags.len() == 1 && r.tags[0] == p.tags[0], "fill / tags unchanged");
    }

    #[kani::proof]
    #[kani::unwind(6)]
    #[kani::solver(cvc5)]
    pub(crate) fn check_polygon_scale3() {
        check_scale_n(Polygon::new(vec![any_point(), any_point(), any_point()], kani::any(), vec![any_tag()]), 3);
    }

    #[kani::proof]
    #[kani::unwind(6)]
    #[kani::solver(cvc5)]
    pub(crate) fn check_polygon_scale4() {
        check_scale_n(Polygon::new(vec![any_point(), any_point(), any_point(), any_point()], kani::any(), vec![any_tag()]), 4);
    }

    fn check_abs_n(p: Polygon, n: usize) {
        let c = any_cell();
        kani::assume(valid_cell(c));
        let mut i = 0;
        while i < n {
            kani::assume(grid_lt(p.points[i], 16.0));
            i += 1;
        }
        kani::cover!(true);
        let r = p.absolute_position(c);
        assert!(r.points.len() == n, "same number of points");
        let (ox, oy) = (c.x as f32, c.y as f32 * 2.0);
        let mut i = 0;
        while i < n {
            assert!(r.points[i].x == p.points[i].x + ox && r.points[i].y == p.points[i].y + oy, "point translated");
            i += 1;
        }
        assert!(r.is_filled == p.is_filled && r.tags.len() == 1 && r.tags[0] == p.tags[0], "fill / tags unchanged");
    }

    #[kani::proof]
    #[kani::unwind(6)]
    pub(crate) fn check_polygon_absolute_position3() {
        check_abs_n(Polygon::new(vec![any_point(), any_point(), any_point()], kani::any(), vec![any_tag()]), 3);
    }

    #[kani::proof]
    #[kani::unwind(6)]
    pub(crate) fn check_polygon_absolute_position4() {
        check_abs_n(Polygon::new(vec![any_point(), any_point(), any_point(), any_point()], kani::any(), vec![any_tag()]), 4);
    }

    /// C14: tag -> direction / marker tables
    #[kani::proof]
    #[kani::unwind(4)]
    pub(crate) fn check_polygon_tags() {
        let t = any_tag();
        let d = match t {
            PolygonTag::ArrowTopLeft => Some(Direction::TopLeft),
            PolygonTag::ArrowTop => Some(Direction::Top),
            PolygonTag::ArrowTopRight => Some(Direction::TopRight),
            PolygonTag::ArrowLeft => Some(Direction::Left),
            PolygonTag::ArrowRight => Some(Direction::Right),
            PolygonTag::ArrowBottomLeft => Some(Direction::BottomLeft),
            PolygonTag::ArrowBottom => Some(Direction::Bottom),
            PolygonTag::ArrowBottomRight => Some(Direction::BottomRight),
            PolygonTag::DiamondBullet => None,
        };
        kani::cover!(true);
        assert!(t.direction() == d, "tag direction");
        assert!(t.get_marker() == if d.is_some() { Marker::Arrow } else { Marker::Diamond }, "tag marker");
        let p = Polygon::new(vec![], true, vec![t.clone()]);
        assert!(p.get_marker() == Some(if d.is_some() { Marker::Arrow } else { Marker::Diamond }), "polygon marker");
        let e = Polygon::new(vec![], true, vec![]);
        assert!(e.get_marker().is_none(), "untagged polygon has no marker");
        if let Some(dir) = d {
            assert!(p.matched_direction(dir), "polygon matches its own direction");
            assert!(!p.matched_direction(dir.opposite()), "and not the opposite one");
        }
    }
}
