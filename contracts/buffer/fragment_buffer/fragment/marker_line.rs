//! Contracts for `buffer/fragment_buffer/fragment/marker_line.rs`.
use super::*;
use crate::__verif::h::*;

#[cfg(kani)]
pub(crate) mod k {
    use super::*;
    use crate::__verif::kg::*;

    fn any_marker_line() -> MarkerLine {
        MarkerLine::new(any_point(), any_point(), kani::any(), any_marker(), any_marker())
    }

    /// C11 / C06: scale and absolute_position act on the line only; markers are kept
    #[kani::proof]
    #[kani::solver(cvc5)]
    pub(crate) fn check_marker_line_scale() {
        let m = any_marker_line();
        let s: f32 = kani::any();
        kani::assume(fb_point(m.line.start) && fb_point(m.line.end) && valid_scale(s));
        kani::cover!(true);
        let r = m.scale(s);
        assert!(r.line.start.x.to_bits() == (m.line.start.x * s).to_bits() && r.line.start.y.to_bits() == (m.line.start.y * s).to_bits()
            && r.line.end.x.to_bits() == (m.line.end.x * s).to_bits() && r.line.end.y.to_bits() == (m.line.end.y * s).to_bits(),
            "line scaled");
        assert!(r.line.is_broken == m.line.is_broken && r.start_marker == m.start_marker && r.end_marker == m.end_marker, "flags and markers kept");
    }

    #[kani::proof]
    pub(crate) fn check_marker_line_absolute_position() {
        let m = any_marker_line();
        let c = any_cell();
        kani::assume(grid_lt(m.line.start, 16.0) && grid_lt(m.line.end, 16.0) && valid_cell(c));
        kani::cover!(true);
        let r = m.absolute_position(c);
        let (ox, oy) = (c.x as f32, c.y as f32 * 2.0);
        assert!(r.line.start.x == m.line.start.x + ox && r.line.start.y == m.line.start.y + oy
            && r.line.end.x == m.line.end.x + ox && r.line.end.y == m.line.end.y + oy, "line translated, end point order kept (no swap)");
        assert!(r.line.is_broken == m.line.is_broken && r.start_marker == m.start_marker && r.end_marker == m.end_marker, "flags and markers kept");
        // the constructor never swaps: the marked end stays the marked end
        let n = MarkerLine::new(m.line.start, m.line.end, m.line.is_broken, m.start_marker.clone(), m.end_marker.clone());
        assert!(same_point(n.line.start, m.line.start) && same_point(n.line.end, m.line.end), "MarkerLine::new keeps the end point order");
        let (lo, hi) = m.bounds();
        assert!(lo.x == m.line.start.x.min(m.line.end.x) && hi.y == m.line.start.y.max(m.line.end.y), "bounds of the line");
    }
}
