//! Contracts for `buffer/fragment_buffer/fragment/rect.rs`.
use super::*;
use crate::__verif::h::*;

pub(crate) fn fb_rect(r: &Rect) -> bool {
    fb_point(r.start) && fb_point(r.end) && r.radius.map_or(true, finite_bounded)
}

pub(crate) fn post_rect_scale(q: &Rect, s: f32, r: &Rect) -> bool {
    r.start.x.to_bits() == (q.start.x * s).to_bits()
        && r.start.y.to_bits() == (q.start.y * s).to_bits()
        && r.end.x.to_bits() == (q.end.x * s).to_bits()
        && r.end.y.to_bits() == (q.end.y * s).to_bits()
        && match (q.radius, r.radius) {
            (None, None) => true,
            (Some(a), Some(b)) => b.to_bits() == (a * s).to_bits(),
            _ => false,
        }
        && r.is_filled == q.is_filled
        && r.is_broken == q.is_broken
}

pub(crate) fn post_rect_ctor(a: Point, b: Point, filled: bool, radius: Option<f32>, broken: bool, r: &Rect) -> bool {
    r.is_filled == filled
        && r.is_broken == broken
        && match (radius, r.radius) {
            (None, None) => true,
            (Some(x), Some(y)) => x.to_bits() == y.to_bits(),
            _ => false,
        }
        && ((same_point(r.start, a) && same_point(r.end, b)) || (same_point(r.start, b) && same_point(r.end, a)))
        && !(r.start > r.end)
}

#[cfg(kani)]
pub(crate) mod k {
    use super::*;
    use crate::__verif::kg::*;

    #[kani::proof]
    #[kani::solver(cvc5)]
    pub(crate) fn check_rect_scale() {
        let q = any_rect();
        let s: f32 = kani::any();
        kani::assume(fb_rect(&q) && valid_scale(s));
        kani::cover!(true);
        kani::cover!(q.radius.is_some());
        let r = q.scale(s);
        assert!(post_rect_scale(&q, s, &r), "post_rect_scale");
    }

    #[kani::proof]
    pub(crate) fn check_rect_ctors() {
        let a = any_point();
        let b = any_point();
        let (filled, broken): (bool, bool) = (kani::any(), kani::any());
        let radius: f32 = kani::any();
        kani::assume(fb_point(a) && fb_point(b) && finite_bounded(radius));
        kani::cover!(true);
        assert!(post_rect_ctor(a, b, filled, None, broken, &Rect::new(a, b, filled, broken)), "post Rect::new");
        assert!(post_rect_ctor(a, b, filled, Some(radius), broken, &Rect::rounded_new(a, b, filled, radius, broken)), "post Rect::rounded_new");
        let r = Rect::rounded_new(a, b, filled, radius, broken);
        assert!(r.is_rounded() == (radius > 0.0), "is_rounded");
        assert!(r.width() == r.end.x - r.start.x && r.height() == r.end.y - r.start.y, "width / height");
        assert!(r.is_broken() == broken, "is_broken");
    }

    #[kani::proof]
    pub(crate) fn check_rect_absolute_position() {
        let q = any_rect();
        let c = any_cell();
        kani::assume(grid_lt(q.start, 16.0) && grid_lt(q.end, 16.0) && valid_cell(c) && q.radius.map_or(true, finite_bounded));
        kani::cover!(true);
        let r = q.absolute_position(c);
        let (ox, oy) = (c.x as f32, c.y as f32 * 2.0);
        assert!(r.start.x == q.start.x + ox && r.start.y == q.start.y + oy && r.end.x == q.end.x + ox && r.end.y == q.end.y + oy, "corners translated");
        assert!(r.is_filled == q.is_filled && r.is_broken == q.is_broken && match (q.radius, r.radius) {
            (None, None) => true,
            (Some(x), Some(y)) => x.to_bits() == y.to_bits(),
            _ => false,
        }, "everything else unchanged");
    }

    #[kani::proof]
    pub(crate) fn check_rect_bounds() {
        let q = any_rect();
        kani::assume(fb_rect(&q));
        kani::cover!(true);
        let (lo, hi) = q.bounds();
        assert!(lo.x == q.start.x.min(q.end.x) && lo.y == q.start.y.min(q.end.y) && hi.x == q.start.x.max(q.end.x)
            && hi.y == q.start.y.max(q.end.y), "bounds = box of the corners");
    }
}
