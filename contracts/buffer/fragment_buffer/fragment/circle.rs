//! Contracts for `buffer/fragment_buffer/fragment/circle.rs`.
use super::*;
use crate::__verif::h::*;

pub(crate) fn fb_circle(c: &Circle) -> bool {
    fb_point(c.center) && finite_bounded(c.radius)
}

pub(crate) fn post_circle_scale(c: &Circle, s: f32, r: &Circle) -> bool {
    r.center.x.to_bits() == (c.center.x * s).to_bits()
        && r.center.y.to_bits() == (c.center.y * s).to_bits()
        && r.radius.to_bits() == (c.radius * s).to_bits()
        && r.is_filled == c.is_filled
}

#[cfg(kani)]
pub(crate) mod k {
    use super::*;
    use crate::__verif::kg::*;

    #[kani::proof]
    #[kani::solver(cvc5)]
    pub(crate) fn check_circle_scale() {
        let c = any_circle();
        let s: f32 = kani::any();
        kani::assume(fb_circle(&c) && valid_scale(s));
        kani::cover!(true);
        let r = c.scale(s);
        assert!(post_circle_scale(&c, s, &r), "post_circle_scale");
    }

    #[kani::proof]
    pub(crate) fn check_circle_absolute_position() {
        let c = any_circle();
        let cell = any_cell();
        kani::assume(grid_lt(c.center, 64.0) && valid_cell(cell) && finite_bounded(c.radius));
        kani::cover!(true);
        let r = c.absolute_position(cell);
        assert!(r.center.x == c.center.x + cell.x as f32 && r.center.y == c.center.y + cell.y as f32 * 2.0, "centre translated");
        assert!(r.radius.to_bits() == c.radius.to_bits() && r.is_filled == c.is_filled, "radius / fill unchanged");
        let n = Circle::new(c.center, c.radius, c.is_filled);
        assert!(same_point(n.center, c.center) && n.radius.to_bits() == c.radius.to_bits() && n.is_filled == c.is_filled, "Circle::new");
    }

    /// N4: bounds() = centre -/+ radius on both axes
    #[kani::proof]
    pub(crate) fn check_circle_bounds() {
        let c = any_circle();
        kani::assume(fb_circle(&c) && c.radius >= 0.0);
        kani::cover!(true);
        let (lo, hi) = c.bounds();
        assert!(lo.x == c.center.x - c.radius && lo.y == c.center.y - c.radius && hi.x == c.center.x + c.radius
            && hi.y == c.center.y + c.radius, "bounds = centre -/+ radius");
    }
}
