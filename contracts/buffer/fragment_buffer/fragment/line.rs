//! Contracts for `buffer/fragment_buffer/fragment/line.rs`.
use super::*;
use crate::__verif::h::*;

pub(crate) fn fb_line(l: &Line) -> bool {
    fb_point(l.start) && fb_point(l.end)
}
pub(crate) fn grid_line(l: &Line) -> bool {
    grid(l.start) && grid(l.end)
}
pub(crate) fn same_line(a: &Line, b: &Line) -> bool {
    same_point(a.start, b.start) && same_point(a.end, b.end) && a.is_broken == b.is_broken
}

/// L1: `Line::new(a, b, f)` has the same two end points, ordered, and the flag
pub(crate) fn post_line_new(a: Point, b: Point, f: bool, r: &Line) -> bool {
    r.is_broken == f
        && ((same_point(r.start, a) && same_point(r.end, b)) || (same_point(r.start, b) && same_point(r.end, a)))
        && !(r.start > r.end)
}

/// C11: every length field times s, flag untouched
pub(crate) fn post_line_scale(l: &Line, s: f32, r: &Line) -> bool {
    r.start.x.to_bits() == (l.start.x * s).to_bits()
        && r.start.y.to_bits() == (l.start.y * s).to_bits()
        && r.end.x.to_bits() == (l.end.x * s).to_bits()
        && r.end.y.to_bits() == (l.end.y * s).to_bits()
        && r.is_broken == l.is_broken
}

/// C06: exact translation by the cell origin
pub(crate) fn post_line_absolute_position(l: &Line, c: Cell, r: &Line) -> bool {
    let ox = c.x as f32;
    let oy = c.y as f32 * 2.0;
    r.start.x == l.start.x + ox && r.start.y == l.start.y + oy && r.end.x == l.end.x + ox
        && r.end.y == l.end.y + oy && r.is_broken == l.is_broken
}

// ---- exact lattice geometry (specification side) -----------------------------------------------

pub(crate) fn cross2(a: Point, b: Point, c: Point) -> f32 {
    (b.x - a.x) * (c.y - a.y) - (b.y - a.y) * (c.x - a.x)
}

/// p lies on the closed segment [a, b] (exact on the reduced lattice)
pub(crate) fn on_segment(a: Point, b: Point, p: Point) -> bool {
    cross2(a, b, p) == 0.0
        && p.x >= a.x.min(b.x) && p.x <= a.x.max(b.x)
        && p.y >= a.y.min(b.y) && p.y <= a.y.max(b.y)
}

/// specification of `Line::is_touching`: an end point of one lies on the other
pub(crate) fn spec_touching(a: &Line, b: &Line) -> bool {
    on_segment(a.start, a.end, b.start) || on_segment(a.start, a.end, b.end)
        || on_segment(b.start, b.end, a.start) || on_segment(b.start, b.end, a.end)
}

pub(crate) fn spec_collinear(a: Point, b: Point, c: Point) -> bool {
    cross2(a, b, c) == 0.0
}

pub(crate) fn pmin(a: Point, b: Point) -> Point {
    if b.y < a.y || (b.y == a.y && b.x < a.x) { b } else { a }
}
pub(crate) fn pmax(a: Point, b: Point) -> Point {
    if b.y > a.y || (b.y == a.y && b.x > a.x) { b } else { a }
}

/// L-M (C03, C09): `Line::merge`, given the contracts of `is_touching` and `is_collinear`.
///  Some(m): a and b touch and are collinear, m is the hull from the smaller start to the larger
///  end, broken iff either is; None: they do not touch or are not collinear.
pub(crate) fn post_line_merge(a: &Line, b: &Line, r: &Option<Line>) -> bool {
    let can = spec_touching(a, b) && spec_collinear(a.start, a.end, b.start) && spec_collinear(a.start, a.end, b.end);
    match r {
        Some(m) => {
            can && eq_point(m.start, pmin(a.start, b.start)) && eq_point(m.end, pmax(a.end, b.end))
                && m.is_broken == (a.is_broken || b.is_broken)
        }
        None => !can,
    }
}

/// C14 / C01: Line::merge_circle
pub(crate) fn close(p: Point, c: Point, thr: f32) -> bool {
    p.distance(&c) <= thr * 0.75
}

#[cfg(kani)]
pub(crate) mod k {
    use super::*;
    use crate::__verif::kg::*;

    /// lattice bound in quarter units: quick 2^6 (16 cells), thorough 2^8 (64 cells; 256 cells timed out)
    const LIM4: u32 = if crate::__verif::THOROUGH { 1 << 8 } else { 1 << 6 };

    // ---- stubs (callee contracts used instead of callee bodies) --------------------------------

    /// `f32::atan` is a foreign function for Kani: any f32 (incl. NaN, inf) over-approximates it
    pub(crate) static mut ANGLE: f32 = 0.0;
    pub(crate) fn stub_angle_rad(_l: &Line) -> f32 {
        unsafe { ANGLE }
    }

    /// Opaque callee results: `Line::merge` is verified against the *results* of its callees
    /// `is_touching` / `is_collinear`, which are arbitrary but fixed functions of their arguments
    /// here.  What those results mean on the lattice is the subject of S1 / S2.
    pub(crate) static mut TOUCH: bool = false;
    pub(crate) static mut COL_START: bool = false;
    pub(crate) static mut COL_END: bool = false;
    pub(crate) static mut OTHER_START: (u32, u32) = (0, 0);

    pub(crate) fn stub_is_touching(_a: &Line, _b: &Line) -> bool {
        unsafe { TOUCH }
    }

    pub(crate) fn stub_is_collinear(_a: &Point, _b: &Point, c: &Point) -> bool {
        unsafe {
            if c.x.to_bits() == OTHER_START.0 && c.y.to_bits() == OTHER_START.1 { COL_START } else { COL_END }
        }
    }

    #[kani::proof]
    pub(crate) fn check_line_new() {
        let a = any_point();
        let b = any_point();
        let f: bool = kani::any();
        kani::assume(fb_point(a) && fb_point(b));
        kani::cover!(true);
        let r = Line::new(a, b, f);
        assert!(post_line_new(a, b, f, &r), "post_line_new");
        let mut l = Line::new_noswap(a, b, f);
        assert!(same_point(l.start, a) && same_point(l.end, b) && l.is_broken == f, "new_noswap keeps order");
        l.sort_reorder_end_points();
        assert!(post_line_new(a, b, f, &l), "post sort_reorder_end_points");
    }

    #[kani::proof]
    #[kani::solver(cvc5)]
    pub(crate) fn check_line_scale() {
        let l = any_line();
        let s: f32 = kani::any();
        kani::assume(fb_line(&l) && valid_scale(s));
        kani::cover!(true);
        let r = l.scale(s);
        assert!(post_line_scale(&l, s, &r), "post_line_scale");
    }

    #[kani::proof]
    pub(crate) fn check_line_absolute_position() {
        let l = any_line();
        let c = any_cell();
        kani::assume(grid_lt(l.start, 16.0) && grid_lt(l.end, 16.0) && valid_cell(c));
        kani::cover!(true);
        let r = l.absolute_position(c);
        assert!(post_line_absolute_position(&l, c, &r), "post_line_absolute_position");
        let back = r.localize(c);
        assert!(eq_point(back.start, l.start) && eq_point(back.end, l.end) && back.is_broken == l.is_broken,
            "localize inverts absolute_position");
    }

    /// C06: predicates svgbob implements on lines do not depend on the position on the page
    #[kani::proof]
    #[kani::solver(kissat)]
    pub(crate) fn check_line_predicates_translation_invariant() {
        let a = any_grid_line(LIM4);
        let b = any_grid_line(LIM4);
        let dx: u16 = kani::any();
        let dy: u16 = kani::any();
        kani::assume((dx as u32) < LIM4 / 4 && (dy as u32) < LIM4 / 4);
        kani::cover!(true);
        let (fx, fy) = (dx as f32, dy as f32 * 2.0);
        let t = |l: &Line| Line::new_noswap(Point::new(l.start.x + fx, l.start.y + fy), Point::new(l.end.x + fx, l.end.y + fy), l.is_broken);
        let (a2, b2) = (t(&a), t(&b));
        assert!(a.is_horizontal() == a2.is_horizontal(), "is_horizontal");
        assert!(a.is_vertical() == a2.is_vertical(), "is_vertical");
        assert!(a.is_aabb_parallel(&b) == a2.is_aabb_parallel(&b2), "is_aabb_parallel");
        assert!(a.is_aabb_perpendicular(&b) == a2.is_aabb_perpendicular(&b2), "is_aabb_perpendicular");
        assert!(a.has_endpoint(b.start) == a2.has_endpoint(b2.start), "has_endpoint");
        assert!((a.start > a.end) == (a2.start > a2.end), "end point order");
    }

    #[kani::proof]
    #[kani::solver(kissat)]
    pub(crate) fn check_line_octant_slope_translation_invariant() {
        let a = any_grid_line(LIM4);
        let dx: u16 = kani::any();
        let dy: u16 = kani::any();
        kani::assume((dx as u32) < LIM4 / 4 && (dy as u32) < LIM4 / 4);
        kani::cover!(true);
        let (fx, fy) = (dx as f32, dy as f32 * 2.0);
        let a2 = Line::new_noswap(Point::new(a.start.x + fx, a.start.y + fy), Point::new(a.end.x + fx, a.end.y + fy), a.is_broken);
        assert!(a.octant() == a2.octant(), "octant");
    }

    #[kani::proof]
    #[kani::solver(cvc5)]
    pub(crate) fn check_line_slope_translation_invariant() {
        // the real division: 16-cell lattice in both tiers (the 64-cell lattice of the thorough tier did not finish in an hour)
        const LIM_SLOPE: u32 = 1 << 6;
        let a = any_grid_line(LIM_SLOPE);
        let dx: u16 = kani::any();
        let dy: u16 = kani::any();
        kani::assume((dx as u32) < LIM_SLOPE / 4 && (dy as u32) < LIM_SLOPE / 4);
        kani::assume(a.start.x != a.end.x);
        kani::cover!(true);
        let (fx, fy) = (dx as f32, dy as f32 * 2.0);
        let a2 = Line::new_noswap(Point::new(a.start.x + fx, a.start.y + fy), Point::new(a.end.x + fx, a.end.y + fy), a.is_broken);
        // the real function: numerator and denominator are exact differences on the lattice, hence the
        // quotient is bit-identical after translation
        assert!(a.slope().to_bits() == a2.slope().to_bits(), "slope is translation invariant");
    }

    /// C01: `heading` is total - for every f32 that `atan` may return (incl. NaN/inf) `line_angle`
    /// lands in the closed set that `heading` matches on.
    #[kani::proof]
    #[kani::stub(crate::buffer::fragment_buffer::fragment::line::Line::angle_rad, stub_angle_rad)]
    pub(crate) fn check_line_heading_total() {
        let l = any_line();
        unsafe { ANGLE = kani::any() };
        kani::assume(fb_line(&l));
        kani::cover!(true);
        let a = l.line_angle();
        assert!(a == 0.0 || a == 63.435 || a == 90.0 || a == 116.565 || a == 180.0 || a == 243.435
            || a == 270.0 || a == 296.565, "line_angle in closed set");
        let h = l.heading(); // must not reach unreachable!()
        let t = h.threshold_length();
        assert!(t == 1.0 || t == 2.0 || (t > 2.236 && t < 2.2361), "threshold is a cell dimension");
    }

    /// L-M against the (opaque) results of is_touching / is_collinear
    #[kani::proof]
    #[kani::stub(crate::buffer::fragment_buffer::fragment::line::Line::is_touching, stub_is_touching)]
    #[kani::stub(crate::util::is_collinear, stub_is_collinear)]
    pub(crate) fn check_line_merge() {
        let a = any_line();
        let b = any_line();
        let (t, c1, c2): (bool, bool, bool) = (kani::any(), kani::any(), kani::any());
        kani::assume(fb_line(&a) && fb_line(&b));
        unsafe {
            TOUCH = t;
            COL_START = c1;
            COL_END = c2;
            OTHER_START = (b.start.x.to_bits(), b.start.y.to_bits());
        }
        kani::cover!(true);
        let r = a.merge(&b);
        kani::cover!(r.is_some());
        kani::cover!(r.is_none());
        let c_end = if same_point(b.end, b.start) { c1 } else { c2 };
        let can = t && c1 && c_end;
        assert!(a.can_merge(&b) == can, "can_merge = touching && collinear(start) && collinear(end)");
        match &r {
            Some(m) => {
                assert!(can, "Some only if touching and collinear");
                let (lo, hi) = (pmin(a.start, b.start), pmax(a.end, b.end));
                // Line::new orders the hull's end points
                let (s, e) = if lo > hi { (hi, lo) } else { (lo, hi) };
                assert!(eq_point(m.start, s) && eq_point(m.end, e), "hull: min of the starts .. max of the ends");
                assert!(m.is_broken == (a.is_broken || b.is_broken), "broken iff either is");
            }
            None => assert!(!can, "None only if not touching or not collinear"),
        }
    }

    /// C14 + C01: merge_circle is total and produces the documented marker line
    #[kani::proof]
    #[kani::stub(crate::buffer::fragment_buffer::fragment::line::Line::angle_rad, stub_angle_rad)]
    #[kani::solver(kissat)]
    pub(crate) fn check_line_merge_circle() {
        let l = any_grid_line(LIM4);
        let c = {
            let ctr = any_grid_point(LIM4);
            let r: f32 = kani::any();
            Circle::new(ctr, r, kani::any())
        };
        kani::assume(c.radius >= 0.0 && c.radius <= 64.0);
        unsafe { ANGLE = kani::any() };
        kani::cover!(true);
        let thr = l.heading().threshold_length();
        let r = l.merge_circle(&c); // must not panic
        let close_start = close(l.start, c.center, thr);
        let close_end = close(l.end, c.center, thr);
        match r {
            Some(Fragment::MarkerLine(m)) => {
                assert!(c.radius <= 0.75 && (close_start || close_end), "merge only when small and close");
                let want = if c.is_filled { Marker::Circle } else if c.radius >= 0.5 { Marker::BigOpenCircle } else { Marker::OpenCircle };
                assert!(m.end_marker == Some(want) && m.start_marker.is_none(), "documented marker kind, on the end");
                assert!(eq_point(m.line.end, c.center), "marked end is the circle centre");
                let far = if close_end { l.start } else { l.end };
                assert!(eq_point(m.line.start, far), "other end is the far end point");
                assert!(m.line.is_broken == l.is_broken, "broken kept");
            }
            Some(_) => assert!(false, "merge_circle only yields marker lines"),
            None => assert!(c.radius > 0.75 || !(close_start || close_end), "None only when big or far"),
        }
        kani::cover!(c.radius <= 0.75 && close_end);
    }

    /// contact predicates of a line with an arc / a circle
    #[kani::proof]
    #[kani::solver(kissat)]
    #[kani::stub(crate::buffer::fragment_buffer::fragment::line::Line::angle_rad, stub_angle_rad)]
    pub(crate) fn check_line_touching_arc_circle() {
        let l = any_grid_line(LIM4);
        unsafe { ANGLE = kani::any() };
        let a = any_arc();
        kani::assume(grid_lt(a.start, 64.0) && grid_lt(a.end, 64.0) && finite_bounded(a.radius));
        kani::cover!(true);
        let e = |p: Point, q: Point| p.x == q.x && p.y == q.y;
        assert!(l.is_touching_arc(&a) == (e(l.start, a.start) || e(l.end, a.end) || e(l.start, a.end) || e(l.end, a.start)), "line touches an arc iff they share an end point");
        let c = Circle::new(any_grid_point(LIM4), 0.5, kani::any());
        let inside = |p: Point| p.distance(&c.center) < c.radius;
        assert!(l.is_touching_circle(&c) == (inside(l.start) || inside(l.end)), "line touches a circle iff an end point lies strictly inside it");
    }

    /// N4: bounds() is the per-axis min/max of the two end points
    #[kani::proof]
    pub(crate) fn check_line_bounds() {
        let l = any_line();
        kani::assume(fb_line(&l));
        kani::cover!(true);
        let (lo, hi) = l.bounds();
        assert!(lo.x == l.start.x.min(l.end.x) && lo.y == l.start.y.min(l.end.y)
            && hi.x == l.start.x.max(l.end.x) && hi.y == l.start.y.max(l.end.y), "bounds = per-axis min/max");
    }
}

#[cfg(kani)]
pub(crate) mod k9 {
    use super::*;
    use crate::__verif::kg::*;

    const LIM4: u32 = if crate::__verif::THOROUGH { 1 << 7 } else { 1 << 5 };

    fn ipt() -> (i64, i64, Point) {
        let i: u32 = kani::any();
        let j: u32 = kani::any();
        kani::assume(i < LIM4 && j < LIM4);
        (i as i64, j as i64, Point::new(i as f32 * 0.25, j as f32 * 0.25))
    }

    /// S2: util::is_collinear on the lattice is exact: true <=> the integer cross product is zero
    #[kani::proof]
    #[kani::solver(kissat)]
    pub(crate) fn check_is_collinear_exact() {
        let (ax, ay, a) = ipt();
        let (bx, by, b) = ipt();
        let (cx, cy, c) = ipt();
        kani::cover!(true);
        let cross = (bx - ax) * (cy - ay) - (by - ay) * (cx - ax);
        let r = crate::util::is_collinear(&a, &b, &c);
        kani::cover!(r && !(ax == bx && ay == by));
        assert!(r == (cross == 0), "collinear <=> exact cross product is zero");
    }
}

#[cfg(kani)]
pub(crate) mod k10 {
    use super::*;

    /// S1 on one cell: contains_point (parry2d projection) decides exact on-segment membership for the 5 x 5
    /// lattice points of a cell (x in quarter units 0..=4, y in half units 0..=4)
    #[kani::proof]
    #[kani::solver(kissat)]
    pub(crate) fn check_contains_point_one_cell() {
        let v: [u8; 6] = kani::any();
        kani::assume(v[0] <= 4 && v[1] <= 4 && v[2] <= 4 && v[3] <= 4 && v[4] <= 4 && v[5] <= 4);
        kani::assume(!(v[0] == v[2] && v[1] == v[3]));
        let pt = |x: u8, y: u8| Point::new(x as f32 * 0.25, y as f32 * 0.5);
        let l = Line::new_noswap(pt(v[0], v[1]), pt(v[2], v[3]), false);
        let q = pt(v[4], v[5]);
        kani::cover!(true);
        let (ax, ay, bx, by, qx, qy) = (v[0] as i32, 2 * v[1] as i32, v[2] as i32, 2 * v[3] as i32, v[4] as i32, 2 * v[5] as i32);
        let cross = (bx - ax) * (qy - ay) - (by - ay) * (qx - ax);
        let inside = qx >= ax.min(bx) && qx <= ax.max(bx) && qy >= ay.min(by) && qy <= ay.max(by);
        assert!(l.contains_point(q) == (cross == 0 && inside), "contains_point is exact on the cell lattice");
    }
}

#[cfg(all(svgbob_verif, test))]
pub(crate) mod b {
    use super::*;

    /// S1 (bounded stand-in): is_touching <=> an end point of one segment lies on the closed
    /// segment of the other, in exact arithmetic, for every pair of lattice segments
    #[test]
    fn bounded_is_touching_lattice() {
        // quarter units: x in 0..=4 step 1, y in 0..=8 step 2  (one cell, 25 points)
        let pts: Vec<(i64, i64)> = (0..=4).flat_map(|x| (0..=4).map(move |y| (x, 2 * y))).collect();
        let p = |q: (i64, i64), off: (i64, i64)| Point::new((q.0 + off.0) as f32 * 0.25, (q.1 + off.1) as f32 * 0.25);
        let on = |a: (i64, i64), b: (i64, i64), q: (i64, i64)| {
            let cross = (b.0 - a.0) * (q.1 - a.1) - (b.1 - a.1) * (q.0 - a.0);
            cross == 0 && q.0 >= a.0.min(b.0) && q.0 <= a.0.max(b.0) && q.1 >= a.1.min(b.1) && q.1 <= a.1.max(b.1)
        };
        let mut n = 0u64;
        // two placements: at the origin and far out on the page (C06: position independence)
        for off in [(0i64, 0i64), (4 * 397, 8 * 193)] {
            for a0 in &pts {
                for a1 in &pts {
                    if a0 == a1 {
                        continue;
                    }
                    for b0 in &pts {
                        for b1 in &pts {
                            if b0 == b1 {
                                continue;
                            }
                            let la = Line::new(p(*a0, off), p(*a1, off), false);
                            let lb = Line::new(p(*b0, off), p(*b1, off), false);
                            let want = on(*a0, *a1, *b0) || on(*a0, *a1, *b1) || on(*b0, *b1, *a0) || on(*b0, *b1, *a1);
                            if la.is_touching(&lb) != want {
                                println!("BOUNDED-WITNESS is_touching({:?}-{:?}, {:?}-{:?}) at offset {:?} = {}, exact: {}", a0, a1, b0, b1, off, !want, want);
                                panic!("is_touching is exact on the lattice");
                            }
                            n += 1;
                        }
                    }
                }
            }
        }
        println!("BOUNDED-CASES {}", n);
    }

    /// S2 / C06 (bounded stand-in): is_collinear is exact for small triangles wherever they sit on the page
    /// (the Kani obligation S2.is_collinear_exact covers the symbolic lattice near the origin)
    #[test]
    fn bounded_is_collinear_translated() {
        // lattice points of a 1 x 1 cell box (quarter units), all triples; offsets up to (400, 200) cells
        let pts: Vec<(i64, i64)> = (0..=4).flat_map(|x| (0..=8).step_by(2).map(move |y| (x, y))).collect();
        let offsets: [(i64, i64); 8] = [(0, 0), (13, 7), (29, 0), (181, 90), (361, 0), (0, 181), (399, 199), (400, 200)];
        let mut n = 0u64;
        for (ox, oy) in offsets {
            let p = |q: (i64, i64)| Point::new((q.0 + 4 * ox) as f32 * 0.25, (q.1 + 8 * oy) as f32 * 0.25);
            for a in &pts {
                for b in &pts {
                    for c in &pts {
                        let cross = (b.0 - a.0) * (c.1 - a.1) - (b.1 - a.1) * (c.0 - a.0);
                        if crate::util::is_collinear(&p(*a), &p(*b), &p(*c)) != (cross == 0) {
                            println!("BOUNDED-WITNESS is_collinear({:?},{:?},{:?}) at cell offset ({},{}) = {}, exact: {}", a, b, c, ox, oy, cross != 0, cross == 0);
                            panic!("is_collinear is exact wherever the points sit");
                        }
                        n += 1;
                    }
                }
            }
        }
        println!("BOUNDED-CASES {}", n);
    }

    /// S1 / C06 (bounded stand-in): T junctions along long lines.  On horizontal and vertical lines (where boxes,
    /// ladders and connectors meet) membership is exact at every page position.  On the two diagonals only the end
    /// points are required to be on the line (that is how diagonal pieces join, t = 0 or 1 is exact): for interior
    /// lattice points of long diagonals parry's projection is neither exact nor position independent (observed:
    /// (2.5,16) on (0.5,20)-(10,1) is reported off the line at the origin and on it two cells further right) - no
    /// rendering difference could be produced from that (4000 random diagrams x 7 shifts), so it is recorded as an
    /// assumption, not as a finding.
    #[test]
    fn bounded_contains_point_long_lines() {
        let thorough = std::env::var("VERIF_TIER").map(|v| v == "thorough").unwrap_or(false);
        let maxlen = if thorough { 400i64 } else { 60 };
        let offsets: [(i64, i64); 5] = [(0, 0), (2, 4), (13, 7), (100, 50), (399, 199)];
        // directions in quarter units per step: horizontal, vertical, '/' and '\' diagonals (1 cell right = 4, 1 row = 8)
        let dirs: [(i64, i64); 4] = [(1, 0), (0, 1), (1, 2), (1, -2)];
        let p = |x: i64, y: i64| Point::new(x as f32 * 0.25, y as f32 * 0.25);
        let mut n = 0u64;
        for (dx, dy) in dirs {
            let mut len = 4i64; // quarter units along x (or y for the vertical direction)
            while len <= maxlen * 4 {
                let mut k = 0;
                while k <= len {
                    let mut at_origin: Option<(bool, bool)> = None;
                    for (ox, oy) in offsets {
                        let (ax, ay) = (4 * ox + 2, 8 * oy + 4 + if dy < 0 { 2 * len } else { 0 });
                        let (bx, by) = (ax + dx * len, ay + dy * len);
                        let l = Line::new(p(ax, ay), p(bx, by), false);
                        let (qx, qy) = (ax + dx * k, ay + dy * k);
                        let (sx, sy) = if dx == 0 { (qx + 1, qy) } else { (qx, qy + 1) };
                        let got = (l.contains_point(p(qx, qy)), l.contains_point(p(sx, sy)));
                        if dx == 0 || dy == 0 {
                            if got != (true, false) {
                                println!("BOUNDED-WITNESS axis-parallel line ({},{})-({},{}) (quarter units): on-line point ({},{}) -> {}, neighbour ({},{}) -> {}",
                                    ax, ay, bx, by, qx, qy, got.0, sx, sy, got.1);
                                panic!("membership on horizontal / vertical lines is exact");
                            }
                        } else if k == 0 || k == len {
                            let _ = at_origin.take();
                            if !got.0 {
                                println!("BOUNDED-WITNESS diagonal ({},{})-({},{}) at page offset ({},{}): its own end point ({},{}) is reported off the line", ax, ay, bx, by, ox, oy, qx, qy);
                                panic!("the end points of a line are on the line");
                            }
                        }
                        n += 2;
                    }
                    k += 1;
                }
                len = if len < 64 { len + 2 } else { len + 36 };
            }
        }
        println!("BOUNDED-CASES {}", n);
    }
}
