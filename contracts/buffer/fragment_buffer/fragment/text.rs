//! Contracts for `buffer/fragment_buffer/fragment/text.rs` (child module: sees private items).
use super::*;
use crate::__verif::h::*;

// ------------------------------------------------------------------------------------------
// C02 / C08  sink contract: replace_html_char
// ------------------------------------------------------------------------------------------

/// The entity svgbob must use for a markup-significant character.
pub(crate) fn entity_of(c: char) -> Option<&'static str> {
    match c {
        '<' => Some("&lt;"),
        '>' => Some("&gt;"),
        '&' => Some("&amp;"),
        '\'' => Some("&#39;"),
        '"' => Some("&quot;"),
        _ => None,
    }
}

/// post-condition of `replace_html_char(c) = r` (from the statements of C02 and C08):
///  * markup-significant characters leave as their entity (so un-escaping yields `c` again and
///    nothing can open a tag / entity / attribute),
///  * a character XML cannot represent is dropped (empty string),
///  * every other character leaves as exactly itself.
pub(crate) fn post_replace_html_char(c: char, r: &str) -> bool {
    if let Some(e) = entity_of(c) {
        str_eq_n::<6>(r, e)
    } else if !xml_char(c) {
        r.is_empty()
    } else {
        str_is_char(r, c)
    }
}

#[cfg(kani)]
pub(crate) mod k {
    use super::*;

    #[kani::proof]
    pub(crate) fn check_replace_html_char() {
        let c: char = kani::any();
        kani::cover!(true);
        let r = replace_html_char(c);
        assert!(post_replace_html_char(c, r.as_ref()), "post_replace_html_char");
    }

    /// vacuity canary: must FAIL (the machinery treats a passing canary as undecided)
    #[kani::proof]
    pub(crate) fn canary_replace_html_char_identity() {
        let c: char = kani::any();
        let r = replace_html_char(c);
        assert!(str_is_char(r.as_ref(), c), "canary");
    }
}
