//! Contracts for `buffer/fragment_buffer/fragment/text.rs` (child module: sees private items).
use super::*;
use crate::__verif::h::*;

// ------------------------------------------------------------------------------------------
// C02 / C08  sink contract: replace_html_char
// ------------------------------------------------------------------------------------------

/// The entity svgbob must use for a markup-significant character.
pub(crate) fn entity_of(c: char) -> Option<&'static str> {
    match c {
        '<' => Some("&lt;"),
        '>' => Some("&gt;"),
        '&' => Some("&amp;"),
        '\'' => Some("&#39;"),
        '"' => Some("&quot;"),
        _ => None,
    }
}

/// post-condition of `replace_html_char(c) = r` (from the statements of C02 and C08):
///  * markup-significant characters leave as their entity (so un-escaping yields `c` again and
///    nothing can open a tag / entity / attribute),
///  * a character XML cannot represent is dropped (empty string),
///  * every other character leaves as exactly itself.
pub(crate) fn post_replace_html_char(c: char, r: &str) -> bool {
    if let Some(e) = entity_of(c) {
        str_eq_n::<6>(r, e)
    } else if !xml_char(c) {
        r.is_empty()
    } else {
        str_is_char(r, c)
    }
}

#[cfg(kani)]
pub(crate) mod k {
    use super::*;

    #[kani::proof]
    pub(crate) fn check_replace_html_char() {
        let c: char = kani::any();
        kani::cover!(true);
        let r = replace_html_char(c);
        assert!(post_replace_html_char(c, r.as_ref()), "post_replace_html_char");
    }

    /// vacuity canary: must FAIL (the machinery treats a passing canary as undecided)
    #[kani::proof]
    pub(crate) fn canary_replace_html_char_identity() {
        let c: char = kani::any();
        let r = replace_html_char(c);
        assert!(str_is_char(r.as_ref(), c), "canary");
    }
}

// ------------------------------------------------------------------------------------------
// C04: CellText view (cells <-> characters), C11 / C06: Text
// ------------------------------------------------------------------------------------------

/// cells a character occupies in a row, as laid out by `StringBuffer` (specification side; only
/// for the alphabet the obligations range over)
pub(crate) fn spec_cols_char(c: char) -> i32 {
    match c {
        '一' | '界' => 2,
        _ => 1,
    }
}

pub(crate) fn spec_cols(s: &str) -> i32 {
    let mut n = 0;
    for c in s.chars() {
        n += spec_cols_char(c);
    }
    n
}

/// the strings the CellText obligations range over: ASCII, 2-byte Latin, 3-byte wide CJK,
/// combining mark, and two-character mixtures
pub(crate) const ALPHABET: [&str; 10] =
    ["a", "é", "一", "\u{301}", "ab", "éa", "aé", "一a", "a一", "界一"];

/// the smaller alphabet used for *pairs* of texts
pub(crate) const PAIR_ALPHABET: [&str; 5] = ["a", "é", "一", "\u{301}", "一a"];

#[cfg(kani)]
pub(crate) mod k2 {
    use super::*;
    use crate::__verif::kg::*;

    /// T1 + T4: construction and anchoring (content "é": multi-byte; the content is only moved)
    #[kani::proof]
    #[kani::unwind(6)]
    pub(crate) fn check_celltext_new_and_anchor() {
        let c = any_valid_cell();
        let d = any_valid_cell();
        kani::cover!(true);
        let s = "é";
        let t = CellText::new(c, s.to_string());
        assert!(t.start == c && str_eq_n::<4>(&t.content, s), "CellText::new keeps cell and content");
        let a = t.absolute_position(d);
        assert!(a.start.x == c.x + d.x && a.start.y == c.y + d.y && str_eq_n::<4>(&a.content, s), "absolute_position translates the cell");
        let txt: Text = t.into();
        assert!(str_eq_n::<4>(&txt.text, s), "Text keeps the content");
        // anchored inside the first character's cell: origin + (0.25, 1.5)
        assert!(txt.start.x == c.x as f32 + 0.25 && txt.start.y == c.y as f32 * 2.0 + 1.5, "anchor = q of the start cell");
        let o = c.top_left_most();
        let e = c.bottom_right_most();
        assert!(txt.start.x > o.x && txt.start.x < e.x && txt.start.y > o.y && txt.start.y < e.y, "anchor strictly inside the cell");
    }

    /// C11: Text::scale (content "é")
    #[kani::proof]
    #[kani::unwind(6)]
    #[kani::solver(cvc5)]
    pub(crate) fn check_text_scale() {
        let p = any_point();
        let s: f32 = kani::any();
        kani::assume(fb_point(p) && valid_scale(s));
        kani::cover!(true);
        let t = Text::new(p, "é".to_string());
        let r = t.scale(s);
        assert!(r.start.x.to_bits() == (p.x * s).to_bits() && r.start.y.to_bits() == (p.y * s).to_bits(), "anchor scaled");
        assert!(str_eq_n::<4>(&r.text, "é"), "text unchanged");
    }

    /// C06: Text::absolute_position (content "é")
    #[kani::proof]
    #[kani::unwind(6)]
    pub(crate) fn check_text_absolute_position() {
        let p = any_point();
        let c = any_valid_cell();
        kani::assume(grid_lt(p, 16.0));
        kani::cover!(true);
        let t = Text::new(p, "é".to_string());
        let r = t.absolute_position(c);
        assert!(r.start.x == p.x + c.x as f32 && r.start.y == p.y + c.y as f32 * 2.0, "anchor translated");
        assert!(str_eq_n::<4>(&r.text, "é"), "text unchanged");
    }
}

#[cfg(all(svgbob_verif, test))]
pub(crate) mod b {
    use super::*;
    use unicode_width::UnicodeWidthChar;

    /// `CellText` occupies, for every single character, exactly the cells `StringBuffer` allots
    /// to it (exhaustive over all `char`s; natively, because the unicode-width tables are data)
    #[test]
    fn bounded_celltext_columns_all_chars() {
        let mut n = 0u64;
        for u in 1u32..=0x10FFFF {
            let Some(c) = char::from_u32(u) else { continue };
            let sb = crate::buffer::StringBuffer::from(c.to_string().as_str());
            // rows: a line terminator yields no row; otherwise one row of 1 + fillers
            if sb.len() != 1 || sb[0].is_empty() {
                continue; // U+000A: a line terminator never occurs inside a row
            }
            let row_cols = sb[0].len() as i32;
            let t = CellText::new(Cell::new(3, 4), c.to_string());
            if t.end_cell() != Cell::new(3 + row_cols, 4) {
                println!("BOUNDED-WITNESS char U+{:04X}: row has {} columns, CellText claims {}", u, row_cols, t.end_cell().x - 3);
                panic!("CellText columns disagree with StringBuffer");
            }
            n += 1;
        }
        println!("BOUNDED-CASES {}", n);
    }

    /// T2 + T3 (bounded stand-in): can_merge / merge over display columns - whole view
    #[test]
    fn bounded_celltext_merge() {
        let mut n = 0u64;
        for sa in ALPHABET {
            for sb in ALPHABET {
                for ya in 0..2 {
                    for dx in -7i32..=7 {
                        let ca = Cell::new(10, 5);
                        let cb = Cell::new(10 + dx, 5 + ya);
                        let a = CellText::new(ca, sa.to_string());
                        let b = CellText::new(cb, sb.to_string());
                        let a_then_b = ca.y == cb.y && ca.x + spec_cols(sa) == cb.x;
                        let b_then_a = ca.y == cb.y && cb.x + spec_cols(sb) == ca.x;
                        let w = format!("a={:?}@{} b={:?}@{}", sa, ca, sb, cb);
                        if a.can_merge(&b) != (a_then_b || b_then_a) {
                            println!("BOUNDED-WITNESS can_merge wrong for {}", w);
                            panic!("can_merge <=> same row and consecutive display columns");
                        }
                        match a.merge(&b) {
                            Some(m) => {
                                let (first, sf, ss) = if a_then_b { (&a, sa, sb) } else { (&b, sb, sa) };
                                if !(a_then_b || b_then_a) || m.start != first.start || m.content != format!("{}{}", sf, ss) {
                                    println!("BOUNDED-WITNESS merge wrong for {}: {:?}", w, m);
                                    panic!("merge = left ++ right at the left start");
                                }
                            }
                            None => {
                                if a_then_b || b_then_a {
                                    println!("BOUNDED-WITNESS no merge for {}", w);
                                    panic!("consecutive texts on a row do merge");
                                }
                            }
                        }
                        n += 1;
                    }
                }
            }
        }
        println!("BOUNDED-CASES {}", n);
    }

    /// T5 (bounded stand-in): cells / end_cell / bounds / is_contacting consistent with the view
    #[test]
    fn bounded_celltext_cells() {
        let mut n = 0u64;
        for s in ALPHABET {
            for x in [0, 1, 7, 1000] {
                let c = Cell::new(x, 3);
                let t = CellText::new(c, s.to_string());
                let cols = spec_cols(s);
                let cells: Vec<Cell> = t.cells().into_iter().collect();
                let want: Vec<Cell> = (0..cols).map(|k| Cell::new(x + k, 3)).collect();
                let (lo, hi) = t.bounds();
                if t.end_cell() != Cell::new(x + cols, 3) || cells != want || lo != c.top_left_most()
                    || hi != Cell::new(x + cols, 3).bottom_right_most()
                {
                    println!("BOUNDED-WITNESS cells/bounds wrong for {:?}@{}", s, c);
                    panic!("cells are the consecutive display columns");
                }
                n += 1;
            }
        }
        println!("BOUNDED-CASES {}", n);
    }
}
