//! Contracts for `buffer/fragment_buffer/fragment/arc.rs`.
use super::*;
use crate::__verif::h::*;

pub(crate) fn fb_arc(a: &Arc) -> bool {
    fb_point(a.start) && fb_point(a.end) && finite_bounded(a.radius)
}

/// C11: start, end, radius times s; the three flags untouched
pub(crate) fn post_arc_scale(a: &Arc, s: f32, r: &Arc) -> bool {
    r.start.x.to_bits() == (a.start.x * s).to_bits()
        && r.start.y.to_bits() == (a.start.y * s).to_bits()
        && r.end.x.to_bits() == (a.end.x * s).to_bits()
        && r.end.y.to_bits() == (a.end.y * s).to_bits()
        && r.radius.to_bits() == (a.radius * s).to_bits()
        && r.major_flag == a.major_flag
        && r.sweep_flag == a.sweep_flag
        && r.rotation_flag == a.rotation_flag
}

/// C14: normalisation of the constructors: end points ordered, sweep flipped exactly when swapped
pub(crate) fn post_arc_ctor(a: Point, b: Point, radius: f32, major: bool, sweep: bool, r: &Arc) -> bool {
    let swapped = a > b;
    r.radius.to_bits() == radius.to_bits()
        && r.major_flag == major
        && !r.rotation_flag
        && !(r.start > r.end)
        && if swapped {
            same_point(r.start, b) && same_point(r.end, a) && r.sweep_flag == !sweep
        } else {
            same_point(r.start, a) && same_point(r.end, b) && r.sweep_flag == sweep
        }
}

#[cfg(kani)]
pub(crate) mod k {
    use super::*;
    use crate::__verif::kg::*;

    const LIM4: u32 = if crate::__verif::THOROUGH { 1 << 8 } else { 1 << 6 };

    fn any_arc_full() -> Arc {
        Arc {
            start: any_point(),
            end: any_point(),
            radius: kani::any(),
            major_flag: kani::any(),
            sweep_flag: kani::any(),
            rotation_flag: kani::any(),
        }
    }

    // callee contract of Arc::center: any point at all - the centre is NaN when the chord is longer than the
    // diameter (the arc of U+2939 is one), so callers must be total on NaN coordinates too
    pub(crate) static mut CENTER: (f32, f32) = (0.0, 0.0);
    pub(crate) fn stub_center(_a: &Arc) -> Point {
        unsafe { Point::new(CENTER.0, CENTER.1) }
    }

    /// C01 / C05: total for every arc and every centre (NaN included); true exactly when the centre is
    /// axis-aligned with both end points
    #[kani::proof]
    #[kani::stub(crate::buffer::fragment_buffer::fragment::arc::Arc::center, stub_center)]
    pub(crate) fn check_is_aabb_right_angle_arc() {
        let a = any_arc_full();
        let c: (f32, f32) = (kani::any(), kani::any());
        unsafe { CENTER = c };
        kani::cover!(c.0.is_nan());
        kani::cover!(c.0 == a.start.x && c.1 == a.end.y);
        let r = a.is_aabb_right_angle_arc();
        let want = (c.0 == a.start.x && c.1 == a.end.y) || (c.0 == a.end.x && c.1 == a.start.y);
        assert!(r == want, "aligned centre");
    }

    #[kani::proof]
    #[kani::solver(cvc5)]
    pub(crate) fn check_arc_scale() {
        let a = any_arc_full();
        let s: f32 = kani::any();
        kani::assume(fb_arc(&a) && valid_scale(s));
        kani::cover!(true);
        let r = a.scale(s);
        assert!(post_arc_scale(&a, s, &r), "post_arc_scale");
    }

    #[kani::proof]
    pub(crate) fn check_arc_ctors() {
        let a = any_point();
        let b = any_point();
        let radius: f32 = kani::any();
        let sweep: bool = kani::any();
        kani::assume(fb_point(a) && fb_point(b) && finite_bounded(radius));
        kani::cover!(true);
        assert!(post_arc_ctor(a, b, radius, false, false, &Arc::new(a, b, radius)), "post Arc::new");
        assert!(post_arc_ctor(a, b, radius, true, false, &Arc::major(a, b, radius)), "post Arc::major");
        assert!(post_arc_ctor(a, b, radius, false, sweep, &Arc::new_with_sweep(a, b, radius, sweep)), "post Arc::new_with_sweep");
        // the same arc named from either end
        if !(a.x == b.x && a.y == b.y) {
            let x = Arc::new(a, b, radius);
            let y = Arc::new_with_sweep(b, a, radius, true);
            assert!(same_point(x.start, y.start) && same_point(x.end, y.end) && x.sweep_flag == y.sweep_flag, "Arc::new(a,b) = new_with_sweep(b,a,true)");
            assert!(x.arcs_to(a, b) && !x.arcs_to(b, a), "arcs_to is orientation sensitive");
        }
    }

    #[kani::proof]
    pub(crate) fn check_arc_absolute_position() {
        let a = any_arc_full();
        let c = any_cell();
        kani::assume(grid_lt(a.start, 16.0) && grid_lt(a.end, 16.0) && valid_cell(c) && finite_bounded(a.radius));
        kani::cover!(true);
        let r = a.absolute_position(c);
        let (ox, oy) = (c.x as f32, c.y as f32 * 2.0);
        assert!(r.start.x == a.start.x + ox && r.start.y == a.start.y + oy && r.end.x == a.end.x + ox && r.end.y == a.end.y + oy,
            "end points translated by the cell origin");
        assert!(r.radius.to_bits() == a.radius.to_bits() && r.major_flag == a.major_flag && r.sweep_flag == a.sweep_flag
            && r.rotation_flag == a.rotation_flag, "everything else unchanged");
        // order of the end points (and hence the meaning of sweep) is preserved by translation
        assert!((a.start > a.end) == (r.start > r.end), "order preserved");
    }

    /// touching / end point predicates are equalities of end points
    #[kani::proof]
    pub(crate) fn check_arc_touching() {
        let a = any_arc_full();
        let b = any_arc_full();
        let p = any_point();
        kani::assume(fb_arc(&a) && fb_arc(&b) && fb_point(p));
        kani::cover!(true);
        let e = |p: Point, q: Point| p.x == q.x && p.y == q.y;
        assert!(a.is_touching(&b) == (e(a.start, b.start) || e(a.end, b.end) || e(a.start, b.end) || e(a.end, b.start)), "arc touching");
        assert!(a.has_endpoint(p) == (e(a.start, p) || e(a.end, p)), "has_endpoint");
        let (lo, hi) = a.bounds();
        assert!(lo.x == a.start.x.min(a.end.x) && lo.y == a.start.y.min(a.end.y) && hi.x == a.start.x.max(a.end.x)
            && hi.y == a.start.y.max(a.end.y), "bounds = box of the chord");
    }
}

#[cfg(all(svgbob_verif, test))]
pub(crate) mod b {
    use super::*;

    /// C06 (the float-rounding suspect): the centre of a corner arc and `is_aabb_right_angle_arc` do not depend on
    /// where on the page the arc sits
    #[test]
    fn bounded_arc_center_translation() {
        let thorough = std::env::var("VERIF_TIER").map(|v| v == "thorough").unwrap_or(false);
        let (mx, my) = if thorough { (400, 200) } else { (400, 40) };
        // the corner arcs the tables draw: radius 0.5 (normal corners) and 1.0 (wide corners), all four quadrants
        let mut arcs = vec![];
        for r in [0.5f32, 1.0] {
            for (sx, sy) in [(1.0f32, 1.0f32), (1.0, -1.0), (-1.0, 1.0), (-1.0, -1.0)] {
                let a = Point::new(2.0, 2.0 + sy * r);
                let b = Point::new(2.0 + sx * r, 2.0);
                arcs.push(Arc::new(a, b, r));
                arcs.push(Arc::new_with_sweep(a, b, r, true));
            }
        }
        arcs.push(Arc::new(Point::new(1.0, 1.0), Point::new(3.0, 2.5), 2.0)); // not a right-angle arc
        let mut n = 0u64;
        for a in &arcs {
            let c0 = a.center();
            let r0 = a.is_aabb_right_angle_arc();
            for k in 0..=mx {
                for nrow in (0..=my).step_by(if thorough { 1 } else { 3 }) {
                    let cell = Cell::new(k, nrow);
                    let t = a.absolute_position(cell);
                    let c = t.center();
                    let (ex, ey) = (c0.x + k as f32, c0.y + 2.0 * nrow as f32);
                    if t.is_aabb_right_angle_arc() != r0 || (c.x - ex).abs() > 1e-3 || (c.y - ey).abs() > 1e-3 {
                        println!("BOUNDED-WITNESS arc {} moved to cell {}: centre {} (expected ({},{})), right angle {} (at origin {})", a, cell, c, ex, ey, t.is_aabb_right_angle_arc(), r0);
                        panic!("arc geometry does not depend on the position on the page");
                    }
                    n += 1;
                }
            }
        }
        println!("BOUNDED-CASES {}", n);
    }
}
