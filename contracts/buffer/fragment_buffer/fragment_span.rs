//! Contracts for `buffer/fragment_buffer/fragment_span.rs`.
use super::*;
use crate::__verif::h::*;
use crate::fragment::Line;
use crate::Point;

#[cfg(kani)]
pub(crate) mod k {
    use super::*;
    use crate::__verif::kg::*;

    fn fs(c: Cell, l: Line) -> FragmentSpan {
        FragmentSpan::new(Span::new(c, '-'), Fragment::Line(l))
    }

    /// C11: scale acts on the fragment only; the source span is untouched
    #[kani::proof]
    #[kani::unwind(4)]
    #[kani::solver(cvc5)]
    pub(crate) fn check_fragment_span_scale() {
        let c = any_valid_cell();
        let l = any_line();
        let s: f32 = kani::any();
        kani::assume(valid_scale(s) && fb_point(l.start) && fb_point(l.end));
        let (ex, ey) = (l.start.x * s, l.end.y * s);
        let broken = l.is_broken;
        let f = fs(c, l);
        kani::cover!(true);
        let g = f.scale(s);
        assert!(g.span.len() == 1 && g.span[0] == (c, '-'), "scale leaves the span alone");
        match &g.fragment {
            Fragment::Line(m) => assert!(m.start.x.to_bits() == ex.to_bits() && m.end.y.to_bits() == ey.to_bits() && m.is_broken == broken, "the fragment is scaled"),
            _ => assert!(false, "same variant"),
        }
    }

    /// C06: absolute_position acts on the fragment only
    #[kani::proof]
    #[kani::unwind(4)]
    pub(crate) fn check_fragment_span_abs() {
        let c = any_valid_cell();
        let d = any_valid_cell();
        let l = any_grid_line(1 << 6);
        let f = fs(c, l.clone());
        kani::cover!(true);
        let a = f.absolute_position(d);
        assert!(a.span.len() == 1 && a.span[0] == (c, '-'), "absolute_position leaves the span alone");
        match &a.fragment {
            Fragment::Line(m) => assert!(m.start.x == l.start.x + d.x as f32 && m.start.y == l.start.y + d.y as f32 * 2.0, "the fragment is translated"),
            _ => assert!(false, "same variant"),
        }
        assert!(f.cells().len() == 1 && f.cells()[0] == c && f.hit_cell(c) && f.is_bounded(c, c), "cells come from the span");
    }

    /// merge: the fragments merge through Fragment::merge and the spans are concatenated
    pub(crate) static mut MERGED: Option<(u32, u32, u32, u32, bool)> = None;
    pub(crate) fn stub_fragment_merge(_a: &Fragment, _b: &Fragment) -> Option<Fragment> {
        unsafe { MERGED.map(|(a, b, c, d, e)| Fragment::Line(Line::new_noswap(Point::new(f32::from_bits(a), f32::from_bits(b)), Point::new(f32::from_bits(c), f32::from_bits(d)), e))) }
    }

    #[kani::proof]
    #[kani::unwind(5)]
    #[kani::stub(<crate::buffer::fragment_buffer::fragment::Fragment as crate::merge::Merge>::merge, stub_fragment_merge)]
    pub(crate) fn check_fragment_span_merge() {
        let (c1, c2) = (any_valid_cell(), any_valid_cell());
        let m: Option<(u32, u32, u32, u32, bool)> = kani::any();
        unsafe { MERGED = m };
        let a = fs(c1, Line::new_noswap(Point::new(0.0, 1.0), Point::new(1.0, 1.0), false));
        let b = fs(c2, Line::new_noswap(Point::new(1.0, 1.0), Point::new(2.0, 1.0), false));
        kani::cover!(true);
        let r = a.merge(&b);
        assert!(r.is_some() == m.is_some(), "merges exactly when the fragments merge");
        if let Some(r) = r {
            assert!(r.span.len() == 2 && r.span[0] == (c1, '-') && r.span[1] == (c2, '-'), "the spans are concatenated: every source cell is kept");
            let want = m.unwrap();
            match &r.fragment {
                Fragment::Line(l) => assert!(l.start.x.to_bits() == want.0 && l.end.y.to_bits() == want.3 && l.is_broken == want.4, "the merged fragment is Fragment::merge's result"),
                _ => assert!(false, "the merged fragment"),
            }
        }
    }
}
