//! Contracts for `buffer/fragment_buffer/fragment_tree.rs` (C16: tags style the innermost shape).
use super::*;
use crate::__verif::h::*;
use crate::buffer::{Cell, Span};
use crate::fragment::{CellText, Rect};
use crate::Point;

#[cfg(all(svgbob_verif, test))]
pub(crate) mod b {
    use super::*;

    fn rect(x0: f32, y0: f32, x1: f32, y1: f32) -> FragmentSpan {
        FragmentSpan::new(Span::new(Cell::new(x0 as i32, (y0 / 2.0) as i32), '+'),
            Fragment::Rect(Rect::new(Point::new(x0, y0), Point::new(x1, y1), false, false)))
    }
    fn circle(cx: f32, cy: f32, r: f32) -> FragmentSpan {
        FragmentSpan::new(Span::new(Cell::new(cx as i32, (cy / 2.0) as i32), 'o'),
            Fragment::Circle(crate::fragment::Circle::new(Point::new(cx, cy), r, false)))
    }
    fn text(x: i32, y: i32, s: &str) -> FragmentSpan {
        FragmentSpan::new(Span::new(Cell::new(x, y), '{'), Fragment::CellText(CellText::new(Cell::new(x, y), s.to_string())))
    }

    fn find<'a>(trees: &'a [FragmentTree], pred: &dyn Fn(&Fragment) -> bool) -> Vec<&'a FragmentTree> {
        let mut out = vec![];
        for t in trees {
            if pred(&t.fragment.fragment) {
                out.push(t);
            }
            out.extend(find(&t.enclosing, pred));
        }
        out
    }

    /// C16 (bounded stand-in): a tag styles the innermost enclosing shape and is not rendered; a tag
    /// inside no shape stays text; other text inside a shape is unaffected
    #[test]
    fn bounded_enclose_tags() {
        let mut n = 0u64;
        // shapes: outer box, inner box nested in it, a sibling box, a circle
        let outer = (0.0f32, 0.0f32, 60.0f32, 60.0f32);
        let inner = (5.0f32, 4.0f32, 45.0f32, 40.0f32);
        let core = (6.5f32, 6.0f32, 30.0f32, 14.0f32); // nested in inner: three levels
        let sibling = (70.0f32, 0.0f32, 95.0f32, 20.0f32);
        let circ = (110.0f32, 10.0f32, 9.0f32);
        let ring = (38.0f32, 30.0f32, 5.0f32); // a circle nested in inner, beside core
        let bigcirc = (160.0f32, 30.0f32, 25.0f32); // a circle that contains a box
        let cbox = (150.0f32, 20.0f32, 170.0f32, 40.0f32);
        // positions of the content (cell coordinates; a cell is 1 x 2 units): in inner, in outer only,
        // in the sibling, in the circle, outside everything
        let places: [(i32, i32, &str); 9] = [(8, 4, "core"), (10, 10, "inner"), (47, 22, "outer"), (72, 3, "sibling"), (104, 4, "circle"), (130, 40, "none"),
            (34, 14, "ring"), (152, 12, "cbox"), (140, 14, "bigcirc")];
        let contents = ["{t}", "{a,b1}", "{_x}", "hello", "{bad", "{a b}", "{t}x", "{a}{b}"];
        // precondition established by the caller (endorse_to_fragment_spans): shapes come before texts, and an
        // enclosing shape before the shapes inside it (spans are built in row-major order of their first cell)
        let orders: [[usize; 8]; 4] = [[0, 1, 4, 5, 2, 3, 6, 7], [6, 2, 3, 0, 1, 5, 4, 7], [0, 2, 1, 3, 4, 6, 7, 5], [3, 6, 7, 0, 2, 1, 5, 4]];
        for (px, py, place) in places {
            for content in contents {
                for order in orders {
                    for text_first in [false] {
                        let shapes = [rect(outer.0, outer.1, outer.2, outer.3), rect(inner.0, inner.1, inner.2, inner.3),
                            rect(sibling.0, sibling.1, sibling.2, sibling.3), circle(circ.0, circ.1, circ.2),
                            rect(core.0, core.1, core.2, core.3), circle(ring.0, ring.1, ring.2), circle(bigcirc.0, bigcirc.1, bigcirc.2),
                            rect(cbox.0, cbox.1, cbox.2, cbox.3)];
                        let mut frags: Vec<FragmentSpan> = order.iter().map(|i| shapes[*i].clone()).collect();
                        let label = text(px, py, content);
                        let other = text(48, 25, "x"); // plain text in the outer box, never a tag
                        if text_first {
                            frags.insert(0, label.clone());
                            frags.insert(0, other.clone());
                        } else {
                            frags.push(label.clone());
                            frags.push(other.clone());
                        }
                        let rendered: Vec<sauron::Node<()>> = FragmentTree::fragments_to_node(frags.clone());
                        let trees = FragmentTree::enclose_fragments(frags);
                        let is_tag = matches!(content, "{t}" | "{a,b1}" | "{_x}");
                        let want_names: Vec<&str> = match content { "{t}" => vec!["t"], "{a,b1}" => vec!["a", "b1"], "{_x}" => vec!["_x"], _ => vec![] };
                        let key = |f: &Fragment| -> &'static str {
                            match f {
                                Fragment::Rect(r) if r.start.x == outer.0 => "outer",
                                Fragment::Rect(r) if r.start.x == inner.0 => "inner",
                                Fragment::Rect(r) if r.start.x == core.0 => "core",
                                Fragment::Rect(r) if r.start.x == cbox.0 => "cbox",
                                Fragment::Rect(_) => "sibling",
                                Fragment::Circle(c) if c.radius == ring.2 => "ring",
                                Fragment::Circle(c) if c.radius == bigcirc.2 => "bigcirc",
                                Fragment::Circle(_) => "circle",
                                _ => "text",
                            }
                        };
                        let mut ok = true;
                        let mut why = String::new();
                        for shape in ["outer", "inner", "core", "sibling", "circle", "ring", "bigcirc", "cbox"] {
                            let nodes = find(&trees, &|f| key(f) == shape);
                            if nodes.len() != 1 {
                                ok = false;
                                why = format!("shape {} occurs {} times", shape, nodes.len());
                                continue;
                            }
                            let tags: Vec<&str> = nodes[0].css_tag.iter().map(|s| s.as_str()).collect();
                            let want: Vec<&str> = if is_tag && place == shape { want_names.clone() } else { vec![] };
                            if tags != want {
                                ok = false;
                                why = format!("shape {} has classes {:?}, want {:?}", shape, tags, want);
                            }
                        }
                        // the label is rendered as text exactly when it is not a tag inside a shape
                        let labels = find(&trees, &|f| matches!(f, Fragment::CellText(t) if t.content == content));
                        let want_labels = if is_tag && place != "none" { 0 } else { 1 };
                        if labels.len() != want_labels {
                            ok = false;
                            why = format!("label rendered {} times, want {}", labels.len(), want_labels);
                        }
                        let others = find(&trees, &|f| matches!(f, Fragment::CellText(t) if t.content == "x"));
                        if others.len() != 1 {
                            ok = false;
                            why = format!("unrelated text rendered {} times", others.len());
                        }
                        // into_nodes: every node of the forest is rendered exactly once, at every depth
                        fn count_nodes(trees: &[FragmentTree]) -> usize {
                            trees.iter().map(|t| 1 + count_nodes(&t.enclosing)).sum()
                        }
                        let tags = |name: &str| rendered.iter().filter(|n| n.tag() == Some(&name)).count();
                        let texts_in_forest = find(&trees, &|f| matches!(f, Fragment::CellText(_))).len();
                        if rendered.len() != count_nodes(&trees) || tags("rect") != 5 || tags("circle") != 3 || tags("text") != texts_in_forest {
                            ok = false;
                            why = format!("{} nodes in the forest, {} rendered ({} rect, {} circle, {} text)", count_nodes(&trees), rendered.len(), tags("rect"), tags("circle"), tags("text"));
                        }
                        // ... and carries the names its tree node collected in its class attribute (pre-order = rendering order)
                        fn preorder<'a>(trees: &'a [FragmentTree], out: &mut Vec<&'a FragmentTree>) {
                            for t in trees {
                                out.push(t);
                                preorder(&t.enclosing, out);
                            }
                        }
                        let mut pre = vec![];
                        preorder(&trees, &mut pre);
                        for (t, node) in pre.iter().zip(rendered.iter()) {
                            let mut class_tokens: Vec<String> = vec![];
                            if let Some(vals) = node.attribute_value(&"class") {
                                for v in vals {
                                    if let Some(val) = v.get_simple() {
                                        class_tokens.extend(val.to_string().split_whitespace().map(|s| s.to_string()));
                                    }
                                }
                            }
                            let missing = t.css_tag.iter().any(|name| !class_tokens.contains(name));
                            let stray = t.css_tag.is_empty() && want_names.iter().any(|name| class_tokens.iter().any(|c| c == name));
                            if missing || stray {
                                ok = false;
                                why = format!("node {:?} collected the names {:?} but is rendered with class {:?}", key(&t.fragment.fragment), t.css_tag, class_tokens);
                            }
                        }
                        if !ok {
                            println!("BOUNDED-WITNESS tag {:?} placed in {} (order {:?}, text_first {}): {}", content, place, order, text_first, why);
                            panic!("tags style the innermost enclosing shape");
                        }
                        n += 1;
                    }
                }
            }
        }
        // overlapping but not nested shapes with a line inside both: every fragment exactly once (C09: never the same line twice)
        fn count(trees: &[FragmentTree]) -> usize {
            trees.iter().map(|t| 1 + count(&t.enclosing)).sum()
        }
        let l = |a: (f32, f32), b: (f32, f32)| FragmentSpan::new(Span::new(Cell::new(a.0 as i32, (a.1 / 2.0) as i32), '-'),
            Fragment::Line(crate::fragment::Line::new(Point::new(a.0, a.1), Point::new(b.0, b.1), false)));
        let scenarios: Vec<Vec<FragmentSpan>> = vec![
            vec![rect(0.0, 0.0, 30.0, 30.0), rect(20.0, 20.0, 60.0, 60.0), l((22.0, 22.0), (28.0, 22.0))],
            vec![l((10.0, 0.0), (0.0, 20.0)), l((16.0, 0.0), (6.0, 20.0)), l((7.0, 10.0), (9.0, 10.0))],
            vec![rect(0.0, 0.0, 30.0, 30.0), circle(25.0, 25.0, 12.0), l((21.0, 24.0), (27.0, 24.0)), text(22, 13, "x")],
            vec![rect(0.0, 0.0, 30.0, 30.0), rect(20.0, 20.0, 60.0, 60.0), rect(40.0, 0.0, 70.0, 30.0), l((42.0, 22.0), (58.0, 22.0)), l((22.0, 24.0), (28.0, 24.0))],
        ];
        for (si, sc) in scenarios.iter().enumerate() {
            let trees = FragmentTree::enclose_fragments(sc.clone());
            if count(&trees) != sc.len() {
                println!("BOUNDED-WITNESS overlap scenario {}: {} fragments in, {} nodes in the forest", si, sc.len(), count(&trees));
                panic!("every fragment exactly once");
            }
            n += 1;
        }
        println!("BOUNDED-CASES {}", n);
    }
}

