//! Contracts for `buffer/cell_buffer.rs`.
use super::*;
use crate::__verif::h::*;

#[cfg(kani)]
pub(crate) mod k {
    use super::*;
    use crate::__verif::kg::*;

    pub(crate) static mut BOUNDS: Option<((i32, i32), (i32, i32))> = None;
    pub(crate) fn stub_cellbuffer_bounds(_cb: &CellBuffer) -> Option<(Cell, Cell)> {
        unsafe { BOUNDS.map(|(a, b)| (Cell::new(a.0, a.1), Cell::new(b.0, b.1))) }
    }

    fn settings_with_scale(scale: f32) -> Settings {
        Settings {
            font_size: 14,
            font_family: String::new(),
            fill_color: String::new(),
            background: String::new(),
            stroke_color: String::new(),
            stroke_width: 2.0,
            scale,
            include_backdrop: true,
            include_styles: true,
            include_defs: true,
        }
    }

    /// N1 (C12) + C11: canvas = scale * (max column + 2) x 2 * scale * (max row + 2); empty => 2 x 2 cells
    #[kani::proof]
    #[kani::stub(crate::buffer::cell_buffer::CellBuffer::bounds, stub_cellbuffer_bounds)]
    #[kani::solver(kissat)]
    pub(crate) fn check_get_size() {
        let b: Option<((i32, i32), (i32, i32))> = kani::any();
        let scale: f32 = kani::any();
        kani::assume(valid_scale(scale));
        if let Some((lo, hi)) = b {
            kani::assume(lo.0 >= 0 && lo.1 >= 0 && lo.0 <= hi.0 && lo.1 <= hi.1 && hi.0 < 131072 && hi.1 < 131072);
        }
        unsafe { BOUNDS = b };
        kani::cover!(b.is_some());
        kani::cover!(b.is_none());
        let cb = CellBuffer::new();
        let st = settings_with_scale(scale);
        let (w, h) = cb.get_size(&st);
        let (mx, my) = match b {
            Some((_, hi)) => hi,
            None => (0, 0),
        };
        assert!(w.to_bits() == (scale * (mx + 2) as f32 * 1.0).to_bits(), "width = scale * (last column + 2)");
        assert!(h.to_bits() == (scale * (my + 2) as f32 * 2.0).to_bits(), "height = 2 * scale * (last row + 2)");
    }

    /// C11: at the default scale a cell is 8 x 16 and the numbers are exact
    #[kani::proof]
    #[kani::stub(crate::buffer::cell_buffer::CellBuffer::bounds, stub_cellbuffer_bounds)]
    pub(crate) fn check_get_size_default_scale() {
        let hi: (i32, i32) = kani::any();
        kani::assume(hi.0 >= 0 && hi.1 >= 0 && hi.0 < 131072 && hi.1 < 131072);
        unsafe { BOUNDS = Some(((0, 0), hi)) };
        kani::cover!(true);
        let cb = CellBuffer::new();
        let (w, h) = cb.get_size(&settings_with_scale(8.0));
        assert!(w == ((hi.0 + 2) * 8) as f32 && h == ((hi.1 + 2) * 16) as f32, "8 x 16 units per cell, one cell of margin");
        unsafe { BOUNDS = None };
        let (w0, h0) = cb.get_size(&settings_with_scale(8.0));
        assert!(w0 == 16.0 && h0 == 32.0, "empty drawing: two-cell canvas");
    }

    /// N3 (C12): margin lemma - whatever is drawn inside an occupied cell lies inside the canvas,
    /// with at least one cell of margin to the right and below
    #[kani::proof]
    #[kani::stub(crate::buffer::cell_buffer::CellBuffer::bounds, stub_cellbuffer_bounds)]
    #[kani::solver(kissat)]
    pub(crate) fn check_canvas_margin() {
        let hi: (i32, i32) = kani::any();
        let c: (i32, i32) = kani::any();
        kani::assume(hi.0 >= 0 && hi.1 >= 0 && hi.0 < 4096 && hi.1 < 4096);
        kani::assume(c.0 >= 0 && c.1 >= 0 && c.0 <= hi.0 && c.1 <= hi.1);
        // a lattice point of the occupied cell c (sub-cell offsets 0..=4 / 0..=8 quarter units)
        let (i, j): (u8, u8) = (kani::any(), kani::any());
        kani::assume(i <= 4 && j <= 8);
        let scale_sel: u8 = kani::any();
        let scale = match scale_sel % 4 { 0 => 0.5, 1 => 8.0, 2 => 10.0, _ => 37.5 };
        unsafe { BOUNDS = Some(((0, 0), hi)) };
        kani::cover!(true);
        let cb = CellBuffer::new();
        let (w, h) = cb.get_size(&settings_with_scale(scale));
        let p = Cell::new(c.0, c.1).absolute_position(crate::buffer::CellGrid::point(i as usize, j as usize)).scale(scale);
        assert!(p.x >= 0.0 && p.y >= 0.0 && p.x <= w - scale && p.y <= h - 2.0 * scale, "inside the canvas with one cell of margin");
    }
}

// ------------------------------------------------------------------------------------------
// bounded native stand-ins (sauron nodes, pom grammars, BTreeMap glue are beyond both verifiers)
// ------------------------------------------------------------------------------------------
#[cfg(all(svgbob_verif, test))]
pub(crate) mod b {
    use super::*;
    use crate::fragment::{self, Bounds, Fragment};
    use crate::Point;
    use sauron::vdom::Value;

    fn thorough() -> bool {
        std::env::var("VERIF_TIER").map(|v| v == "thorough").unwrap_or(false)
    }

    pub(crate) fn words(alphabet: &[char], max_len: usize) -> Vec<String> {
        let mut out = vec![String::new()];
        let mut frontier = vec![String::new()];
        for _ in 0..max_len {
            let mut next = vec![];
            for w in &frontier {
                for c in alphabet {
                    let mut s = w.clone();
                    s.push(*c);
                    next.push(s);
                }
            }
            out.extend(next.iter().cloned());
            frontier = next;
        }
        out
    }

    fn num(node: &Node<()>, name: &'static str) -> Option<f32> {
        node.first_value(&name).and_then(|v| v.as_f32())
    }

    fn text_of(node: &Node<()>, name: &'static str) -> Option<String> {
        node.first_value(&name).map(|v| v.to_string())
    }

    /// C18 + C02 root: child list and root attributes over the 8 switch combinations
    #[test]
    fn bounded_fragments_to_node_switches() {
        let mut n = 0u64;
        let sizes = [(16.0f32, 32.0f32), (0.5, 0.25), (1e6, 3.0), (800.0, 16.0)];
        for sw in 0..8u32 {
            for (w, h) in sizes {
                for nfrag in 0..3usize {
                    // colour / font / stroke settings only feed the style sheet: the child list must not depend on them
                    // (the last triple is hostile: if a settings string ever reached an attribute, sauron would write it verbatim)
                    let strings = [("white", "black", "monospace"), ("none", "red", "a b"), ("transparent", "none", ""), ("#fff", "rgba(0,0,0,0)", "\"x\""),
                        ("w\" onload=\"mk()\"><script>", "r\" onload=\"mk()\"><script>", "f\" onload=\"mk()\"><script>")];
                    let (bg, fg, font) = strings[(sw as usize + nfrag + (w as usize % 3)) % 5];
                    let st = Settings {
                        include_backdrop: sw & 1 != 0,
                        include_styles: sw & 2 != 0,
                        include_defs: sw & 4 != 0,
                        background: bg.to_string(),
                        fill_color: fg.to_string(),
                        stroke_color: fg.to_string(),
                        font_family: font.to_string(),
                        stroke_width: 1.0 + nfrag as f32,
                        font_size: 10 + nfrag,
                        ..Settings::default()
                    };
                    let frags: Vec<FragmentSpan> = (0..nfrag)
                        .map(|i| {
                            FragmentSpan::new(
                                Span::new(Cell::new(i as i32, 0), '-'),
                                fragment::line(Point::new(i as f32, 1.0), Point::new(i as f32 + 1.0, 1.0)),
                            )
                        })
                        .collect();
                    // the legend only feeds the style sheet: with the style switch off it must leave no trace
                    let legend = if (sw as usize + nfrag) % 2 == 0 { String::new() } else { ".svgbob .a{ fill:red }".to_string() };
                    let node: Node<()> = CellBuffer::fragments_to_node(frags, legend.clone(), &st, w, h);
                    let ok_root = node.tag() == Some(&"svg")
                        && text_of(&node, "xmlns").as_deref() == Some("http://www.w3.org/2000/svg")
                        && text_of(&node, "class").as_deref() == Some("svgbob")
                        && num(&node, "width") == Some(w)
                        && num(&node, "height") == Some(h);
                    let ch = node.children();
                    let mut want: Vec<&str> = vec![];
                    if st.include_styles {
                        want.push("style");
                    }
                    if st.include_defs {
                        want.push("defs");
                    }
                    if st.include_backdrop {
                        want.push("rect");
                    }
                    for _ in 0..nfrag {
                        want.push("line");
                    }
                    let got: Vec<&str> = ch.iter().map(|c| *c.tag().unwrap_or(&"?")).collect();
                    let mut ok = ok_root && got == want;
                    // C02 / C08: no attribute value of the root or of a child carries a character that would end it
                    let mut elements: Vec<&Node<()>> = vec![&node];
                    elements.extend(ch.iter().filter(|c| c.tag() != Some(&"style") && c.tag() != Some(&"defs")));
                    for e in elements {
                        for att in e.attributes().unwrap_or(&[]) {
                            for v in att.value() {
                                if let Some(val) = v.get_simple() {
                                    let text = val.to_string();
                                    if text.contains('"') || text.contains('<') || text.contains('>') || text.contains('&') {
                                        ok = false;
                                        println!("BOUNDED-WITNESS attribute {} of {:?} carries {:?}", att.name(), e.tag(), text);
                                    }
                                }
                            }
                        }
                    }
                    if ok && st.include_styles {
                        let css = ch[0].children().first().and_then(|t| t.as_text()).unwrap_or("");
                        ok = ok && (legend.is_empty() || css.ends_with(&legend));
                    }
                    if ok && st.include_backdrop {
                        let b = &ch[want.iter().position(|t| *t == "rect").unwrap()];
                        ok = ok
                            && text_of(b, "class").as_deref() == Some("backdrop")
                            && num(b, "x") == Some(0.0)
                            && num(b, "y") == Some(0.0)
                            && num(b, "width") == Some(w)
                            && num(b, "height") == Some(h);
                    }
                    // the geometry is the same whatever the switches: scaled by settings.scale only
                    for (i, l) in ch.iter().filter(|c| c.tag() == Some(&"line")).enumerate() {
                        ok = ok
                            && num(l, "x1") == Some(i as f32 * st.scale)
                            && num(l, "y1") == Some(st.scale)
                            && num(l, "x2") == Some((i as f32 + 1.0) * st.scale)
                            && num(l, "y2") == Some(st.scale);
                    }
                    if !ok {
                        println!("BOUNDED-WITNESS switches backdrop={} styles={} defs={} w={} h={} fragments={}: children {:?}",
                            st.include_backdrop, st.include_styles, st.include_defs, w, h, nfrag, got);
                        panic!("fragments_to_node child list / root attributes");
                    }
                    n += 1;
                }
            }
        }
        println!("BOUNDED-CASES {}", n);
    }

    fn unescape(s: &str) -> Option<String> {
        let mut out = String::new();
        let mut rest = s;
        while let Some(c) = rest.chars().next() {
            // a CDATA section is character data too: literal up to its terminator
            if let Some(r) = rest.strip_prefix("<![CDATA[") {
                let end = r.find("]]>")?;
                out.push_str(&r[..end]);
                rest = &r[end + 3..];
                continue;
            }
            // raw markup, or the CDATA terminator outside of a section (not allowed in character data)
            if c == '<' || rest.starts_with("]]>") {
                return None;
            }
            if c == '&' {
                let ents = [("&lt;", '<'), ("&gt;", '>'), ("&amp;", '&'), ("&#39;", '\''), ("&quot;", '"')];
                let e = ents.iter().find(|(e, _)| rest.starts_with(e))?;
                out.push(e.1);
                rest = &rest[e.0.len()..];
            } else {
                out.push(c);
                rest = &rest[c.len_utf8()..];
            }
        }
        Some(out)
    }

    /// C02 / C08 style sink: whatever the legend declarations and the settings strings contain, the
    /// text of the style element is XML character data (no raw '<' and no ']]>' outside a CDATA section,
    /// every '&' starts one of the five entities, every character is an XML character), and decoding it
    /// the way an XML parser does gives back the css that was put in.
    #[test]
    fn bounded_style_sink() {
        let alphabet = ['<', '&', '>', ']', 'a', ';', '\n', '\u{1}', '\u{fffe}', '"', '\''];
        let max = if thorough() { 4 } else { 3 };
        let mut n = 0u64;
        for w in words(&alphabet, max) {
            for channel in 0..3 {
                let mut st = Settings::default();
                let mut legend = String::new();
                match channel {
                    0 => legend = format!(".svgbob .x{{ {} }}", w),
                    1 => st.font_family = w.clone(),
                    _ => st.stroke_color = w.clone(),
                }
                let node: Node<()> = CellBuffer::style(&st, legend.clone());
                let ch = node.children();
                let txt = if ch.len() == 1 { ch[0].as_text() } else { None };
                let ok = node.tag() == Some(&"style")
                    && match txt {
                        Some(t) => {
                            let un = unescape(t);
                            t.chars().all(crate::__verif::h::xml_char)
                                && match un {
                                    // everything XML can represent survives the round trip
                                    Some(u) => {
                                        let kept: String = w.chars().filter(|c| crate::__verif::h::xml_char(*c)).collect();
                                        u.contains(&kept)
                                    }
                                    None => false,
                                }
                        }
                        None => false,
                    };
                if !ok {
                    println!("BOUNDED-WITNESS style sink channel {} payload {:?}: {:?}", channel, w, txt.map(|t| &t[t.len().saturating_sub(60)..]));
                    panic!("style text must be escaped character data");
                }
                n += 1;
            }
        }
        println!("BOUNDED-CASES {}", n);
    }

    /// C16: legend_css = ".svgbob .name{ decl }" per entry, in order, joined by newlines
    #[test]
    fn bounded_legend_css_format() {
        let names = ["a", "b1", "_x"];
        let decls = ["fill:red", "", "stroke: blue;\nfill: none", "f:\"q\""];
        let mut n = 0u64;
        for k in 0..5usize {
            for i in 0..names.len() {
                for j in 0..decls.len() {
                    let mut cb = CellBuffer::new();
                    // every second list repeats a name: an entry is a rule of its own even then
                    let step = if (i + j) % 2 == 0 { 1 } else { 2 };
                    let entries: Vec<(String, String)> =
                        (0..k).map(|e| (names[(i + e * step) % 3].to_string(), decls[(j + e) % 4].to_string())).collect();
                    cb.add_css_styles(entries.clone());
                    let want = entries.iter().map(|(c, d)| format!(".svgbob .{}{{ {} }}", c, d)).collect::<Vec<_>>().join("\n");
                    if cb.legend_css() != want {
                        println!("BOUNDED-WITNESS legend_css for {:?}: {:?}", entries, cb.legend_css());
                        panic!("legend_css format");
                    }
                    n += 1;
                }
            }
        }
        println!("BOUNDED-CASES {}", n);
    }

    /// reference scanner for quoted segments (no backslash in the alphabet): `"` ... next `"`
    fn spec_segments(row: &[char]) -> Vec<(usize, usize)> {
        let mut segs = vec![];
        let mut i = 0;
        while i < row.len() {
            if row[i] == '"' {
                match row[i + 1..].iter().position(|c| *c == '"') {
                    Some(off) => {
                        segs.push((i, i + 1 + off));
                        i = i + 1 + off + 1;
                    }
                    None => break,
                }
            } else {
                i += 1;
            }
        }
        segs
    }

    /// C15 (+ C01 slicing): escape_line on column-expanded rows
    #[test]
    fn bounded_escape_line() {
        // '一' is always followed by its NUL filler, as StringBuffer lays it out
        // a combining mark (display width 0) and a tab (no display width) occupy one cell each
        let tokens: [&[char]; 8] = [&['"'], &['a'], &['|'], &[' '], &['é'], &['一', '\0'], &['\u{301}'], &['\t']];
        let max = if thorough() { 7 } else { 6 };
        let mut rows: Vec<Vec<char>> = vec![vec![]];
        let mut frontier: Vec<Vec<char>> = vec![vec![]];
        for _ in 0..max {
            let mut next = vec![];
            for r in &frontier {
                for t in tokens {
                    let mut s = r.clone();
                    s.extend_from_slice(t);
                    next.push(s);
                }
            }
            rows.extend(next.iter().cloned());
            frontier = next;
        }
        let mut n = 0u64;
        for row in rows {
            let raw: String = row.iter().collect();
            let (escaped, unescaped) = CellBuffer::escape_line(3, &raw); // must not panic
            let segs = spec_segments(&row);
            let un: Vec<char> = unescaped.chars().collect();
            let mut want_un = row.clone();
            let mut want_esc = vec![];
            for (s, e) in &segs {
                for k in *s..=*e {
                    want_un[k] = ' ';
                }
                let content: String = row[*s + 1..*e].iter().filter(|c| **c != '\0').collect();
                want_esc.push((Cell::new(*s as i32, 3), content));
            }
            let got_esc: Vec<(Cell, String)> = escaped.iter().map(|(c, t)| (*c, t.chars().filter(|c| *c != '\0').collect())).collect();
            if un != want_un || got_esc != want_esc {
                println!("BOUNDED-WITNESS escape_line row {:?}: unescaped {:?} (want {:?}), escaped {:?} (want {:?})",
                    raw, unescaped, want_un.iter().collect::<String>(), got_esc, want_esc);
                panic!("escape_line: verbatim text at the opening quote, same columns blanked");
            }
            n += 1;
        }
        println!("BOUNDED-CASES {}", n);
    }

    /// C16 + C17: the legend is cut off at '# Legend:'; the drawing before it is untouched; the rules are the
    /// expected ones (written down here, not taken from the parser); LF / CRLF, trailing blanks at every line
    /// end (also inside the legend and inside a style body that spans lines) and trailing blank lines give the
    /// same cells, quoted texts and css
    #[test]
    fn bounded_legend_cut_and_line_endings() {
        // the last drawing mentions the header words in a note: the real legend further down still counts
        let drawings = ["", "+--+\n|ab|\n+--+\n", "x\n\n", " \"q\" -\n", "┌─┐\n│é│\n└─┘\n", "一二\n┘\n└──┘\n\n", "see # Legend: below\n--\n"];
        let legends: [(&str, &[(&str, &str)]); 9] = [
            ("# Legend:\na = {fill:red}", &[("a", "fill:red")]),
            ("# Legend:\na = {f}\nb1 = {s:1;\nt:2}", &[("a", "f"), ("b1", "s:1;\nt:2")]),
            ("# Legend:\n_x = {}\n", &[("_x", "")]),
            ("# Legend:\na = {f}\n\nb = {g}", &[("a", "f"), ("b", "g")]),
            ("# Legend:\n\na = {f}", &[("a", "f")]),
            ("# Legend:\na = {f}\nrest\nb = {g}", &[("a", "f")]),
            ("# Legend:", &[]),
            ("# Legend:\na = {f;\n\n g }\nb = {h}\nc = {i}", &[("a", "f;\n\n g "), ("b", "h"), ("c", "i")]),
            ("# Legend:\na = {é:一}\nb = {x}", &[("a", "é:一"), ("b", "x")]),
        ];
        let cells = |cb: &CellBuffer| cb.iter().map(|(c, ch)| (*c, *ch)).collect::<Vec<(Cell, char)>>();
        let mut n = 0u64;
        for d in drawings {
            let base = CellBuffer::from(d);
            for (l, entries) in legends {
                let want = entries.iter().map(|(c, s)| format!(".svgbob .{}{{ {} }}", c, s)).collect::<Vec<_>>().join("\n");
                let doc = format!("{}{}", d, l);
                let a = CellBuffer::from(doc.as_str());
                if cells(&a) != cells(&base) || a.escaped_text != base.escaped_text {
                    println!("BOUNDED-WITNESS legend not cut off cleanly: {:?}", doc);
                    panic!("legend is never drawn and the drawing is untouched");
                }
                if a.legend_css() != want {
                    println!("BOUNDED-WITNESS {:?}: css {:?} want {:?}", doc, a.legend_css(), want);
                    panic!("rules in order");
                }
                for blanks in ["", " ", "\t  "] {
                    for tail in ["", "\n", "\n\n\n", "\n  \n\t\n"] {
                        for eol in ["\n", "\r\n"] {
                            // blanks in front of every line end and at the end of the last line, then the tail
                            let text = format!("{}{}{}", doc.replace('\n', &format!("{}\n", blanks)), blanks, tail).replace('\n', eol);
                            let b = CellBuffer::from(text.as_str());
                            if cells(&b) != cells(&a) || b.escaped_text != a.escaped_text || b.legend_css() != a.legend_css() {
                                println!("BOUNDED-WITNESS {:?} differs from {:?}: cells {:?} css {:?} (want css {:?})", text, doc, cells(&b), b.legend_css(), a.legend_css());
                                panic!("line ending convention, trailing blanks and trailing blank lines do not matter");
                            }
                            n += 1;
                        }
                    }
                }
            }
        }
        println!("BOUNDED-CASES {}", n);
    }


    /// T6 + T7 (C04, C17): rows and cells of the drawing: a character sits at the column where its
    /// display columns start, a wide character takes two; blanks and trailing blank lines add nothing
    #[test]
    fn bounded_string_and_cell_buffer() {
        let tokens = ['a', 'é', '一', ' ', '-', '\t'];
        let max = if thorough() { 5 } else { 4 };
        let rows = words(&tokens, max);
        let mut n = 0u64;
        for r in &rows {
            for second in ["", "x", "一"] {
                for ending in ["\n", "\r\n"] {
                    for trail in ["", " ", "\t ", "\n\n"] {
                        let text = format!("{}{}{}{}{}{}", r, trail.trim_matches('\n'), ending, second, ending, if trail.contains('\n') { trail.replace('\n', ending) } else { String::new() });
                        let sb = crate::buffer::StringBuffer::from(text.as_str());
                        let cb = CellBuffer::from(text.as_str());
                        // specification: walk the characters of each row, advancing by the display width
                        let mut want: Vec<(Cell, char)> = vec![];
                        for (y, line) in [r.as_str(), second].iter().enumerate() {
                            let mut x = 0;
                            for ch in line.chars() {
                                if ch != ' ' && ch != '\t' {
                                    want.push((Cell::new(x, y as i32), ch));
                                }
                                x += if ch == '一' { 2 } else { 1 };
                            }
                        }
                        want.sort();
                        let got: Vec<(Cell, char)> = cb.iter().map(|(c, ch)| (*c, *ch)).collect();
                        if got != want {
                            println!("BOUNDED-WITNESS text {:?}: cells {:?}, want {:?} (rows {})", text, got, want, sb.len());
                            panic!("cells = non-blank characters at their display columns");
                        }
                        n += 1;
                    }
                }
            }
        }
        println!("BOUNDED-CASES {}", n);
    }

    /// N2 (C12): bounds of the cell map = per-axis min / max of the occupied cells, None iff empty
    #[test]
    fn bounded_cellbuffer_bounds() {
        let mut n = 0u64;
        assert!(CellBuffer::new().bounds().is_none() && CellBuffer::from("  \n \n").bounds().is_none(), "empty drawing has no bounds");
        // the cell at (7,2) holds a double-width character: it also occupies column 8
        let cells = [(0, 0), (3, 1), (1, 4), (7, 2), (2, 2)];
        for subset in 1..32u32 {
            let mut cb = CellBuffer::new();
            let mut xs = vec![];
            let mut ys = vec![];
            for (k, (x, y)) in cells.iter().enumerate() {
                if subset & (1 << k) != 0 {
                    cb.insert(Cell::new(*x, *y), if *x == 7 { '一' } else { 'x' });
                    xs.push(*x);
                    if *x == 7 {
                        xs.push(8);
                    }
                    ys.push(*y);
                }
            }
            let want = Some((Cell::new(*xs.iter().min().unwrap(), *ys.iter().min().unwrap()), Cell::new(*xs.iter().max().unwrap(), *ys.iter().max().unwrap())));
            if cb.bounds() != want {
                println!("BOUNDED-WITNESS bounds of cells {:?} {:?}: {:?}", xs, ys, cb.bounds());
                panic!("bounds = per-axis min/max");
            }
            n += 1;
        }
        println!("BOUNDED-CASES {}", n);
    }

    /// N1 (C12) through every public way of filling a cell buffer: the canvas is scale x (last column + 2) by
    /// 2 x scale x (last row + 2) of the cells that are in the buffer *now* - parsed from text, inserted through
    /// the map interface (DerefMut) before or after parsing, or removed again
    #[test]
    fn bounded_get_size_every_route() {
        let mut n = 0u64;
        let texts = ["", "ab", "+--+\n|  |\n+--+\n", "  x\n\n\n y", "一二\n"];
        let extra = [(0, 0), (1, 0), (9, 0), (0, 7), (30, 12), (4, 3)];
        for text in texts {
            for ins in 0..(1u32 << extra.len()) {
                for remove_last in [false, true] {
                    let mut cb = CellBuffer::from(text);
                    let mut added = vec![];
                    for (k, (x, y)) in extra.iter().enumerate() {
                        if ins & (1 << k) != 0 {
                            cb.insert(Cell::new(*x, *y), 'x');
                            added.push(Cell::new(*x, *y));
                        }
                    }
                    if remove_last {
                        if let Some(c) = added.last() {
                            cb.remove(c);
                        }
                    }
                    let max_x = cb.iter().map(|(c, ch)| c.x + if *ch == '一' || *ch == '二' { 1 } else { 0 }).max().unwrap_or(0);
                    let max_y = cb.iter().map(|(c, _)| c.y).max().unwrap_or(0);
                    for scale in [1.0f32, 8.0] {
                        let st = Settings { scale, ..Settings::default() };
                        let want = (scale * (max_x + 2) as f32, 2.0 * scale * (max_y + 2) as f32);
                        let got = cb.get_size(&st);
                        let (_node, w, h): (Node<()>, f32, f32) = cb.get_node_with_size(&st);
                        if got != want || (w, h) != want {
                            println!("BOUNDED-WITNESS text {:?} + inserted {:?} (last removed: {}): size {:?} / {:?}, want {:?}", text, added, remove_last, got, (w, h), want);
                            panic!("canvas = one cell of margin around the occupied cells");
                        }
                        n += 1;
                    }
                }
            }
        }
        println!("BOUNDED-CASES {}", n);
    }

    /// WITNESS of a known finding (C12): quoted text is kept outside the cell map, so the canvas does not
    /// grow for it.  Fails while the defect is present (pinned by the repository's own test `escaped_shape`).
    #[test]
    fn witness_quoted_text_outside_canvas() {
        let cb = CellBuffer::from("\"ab\"");
        let st = Settings::default();
        let (w, _h) = cb.get_size(&st);
        let (frags, _) = cb.get_fragment_spans();
        for f in frags {
            // bounds in cells first, then scaled (Text::bounds after scaling mixes scaled and unscaled lengths)
            let (lo, hi) = f.fragment.bounds();
            let (lo, hi) = (lo.scale(st.scale), hi.scale(st.scale));
            if hi.x > w || lo.x < 0.0 {
                println!("BOUNDED-WITNESS input \"ab\" in quotes: text spans x {}..{} on a canvas {} wide", lo.x, hi.x, w);
                panic!("quoted text lies outside the canvas");
            }
        }
    }

    /// the complement of the known finding: text that comes from the cell map lies inside the canvas
    #[test]
    fn bounded_plain_text_inside_canvas() {
        let tokens = ['a', 'é', '一', ' ', '-'];
        let mut n = 0u64;
        for r in words(&tokens, 5) {
            for second in ["", "      z"] {
                let text = format!("{}\n{}\n", r, second);
                let cb = CellBuffer::from(text.as_str());
                // the right-most and bottom-most occupied cell, read off the input itself: a double-width
                // character occupies two columns
                let (mut last_col, mut last_row) = (0i32, 0i32);
                for (y, row) in text.lines().enumerate() {
                    let mut col = 0i32;
                    for ch in row.chars() {
                        let wd = if ch == '一' { 2 } else { 1 };
                        if ch != ' ' {
                            last_col = last_col.max(col + wd - 1);
                            last_row = last_row.max(y as i32);
                        }
                        col += wd;
                    }
                }
                for scale in [0.5f32, 8.0, 37.5] {
                    let st = Settings { scale, ..Settings::default() };
                    let (w, h) = cb.get_size(&st);
                    if (w, h) != (scale * (last_col + 2) as f32, 2.0 * scale * (last_row + 2) as f32) {
                        println!("BOUNDED-WITNESS {:?} at scale {}: canvas {}x{}, last occupied column {} row {}", text, scale, w, h, last_col, last_row);
                        panic!("the canvas has one cell of margin");
                    }
                    let (frags, _) = cb.get_fragment_spans();
                    for f in frags {
                        let (lo, hi) = f.fragment.bounds();
                        let (lo, hi) = (lo.scale(scale), hi.scale(scale));
                        if lo.x < 0.0 || lo.y < 0.0 || hi.x > w || hi.y > h {
                            println!("BOUNDED-WITNESS {:?} at scale {}: {:?} spans ({},{})..({},{}) on a {}x{} canvas", text, scale, f.fragment, lo.x, lo.y, hi.x, hi.y, w, h);
                            panic!("everything drawn from the cell map lies inside the canvas");
                        }
                    }
                }
                n += 1;
            }
        }
        println!("BOUNDED-CASES {}", n);
    }

    /// C12: every drawing of the three arc catalogues (quarter, half, three quarters of each circle size), drawn
    /// free-standing at several offsets, is recognised into fragments that all lie inside the canvas
    #[test]
    fn bounded_arc_catalogue_inside_canvas() {
        let mut n = 0u64;
        for (kind, span) in crate::map::circle_map::__verif::arc_catalogue_spans() {
            let w = span.iter().map(|(c, _)| c.x).max().unwrap_or(0) as usize + 1;
            let h = span.iter().map(|(c, _)| c.y).max().unwrap_or(0) as usize + 1;
            for (dx, dy) in [(0usize, 0usize), (7, 2), (1, 5)] {
                let mut g = vec![vec![' '; w + dx]; h + dy];
                for (c, ch) in span.iter() {
                    g[c.y as usize + dy][c.x as usize + dx] = *ch;
                }
                let text: String = g.iter().map(|r| r.iter().collect::<String>().trim_end().to_string()).collect::<Vec<_>>().join("\n") + "\n";
                let cb = CellBuffer::from(text.as_str());
                for scale in [1.0f32, 8.0] {
                    let st = Settings { scale, ..Settings::default() };
                    let (cw, chh) = cb.get_size(&st);
                    let (frags, _) = cb.get_fragment_spans();
                    if frags.is_empty() {
                        println!("BOUNDED-WITNESS {} arc drawing {:?} yields no fragment", kind, text);
                        panic!("a drawing yields something");
                    }
                    for f in frags {
                        let (lo, hi) = f.fragment.bounds();
                        let (lo, hi) = (lo.scale(scale), hi.scale(scale));
                        if lo.x < 0.0 || lo.y < 0.0 || hi.x > cw || hi.y > chh {
                            println!("BOUNDED-WITNESS {} arc drawing {:?} at scale {}: {:?} spans ({},{})..({},{}) on a {}x{} canvas", kind, text, scale, f.fragment, lo.x, lo.y, hi.x, hi.y, cw, chh);
                            panic!("everything drawn from the cell map lies inside the canvas");
                        }
                        // the bounds of an arc are those of its chord: follow the curve itself (minor arcs; the centre is the
                        // real Arc::center, the direction the sweep flag: clockwise on a y-down page)
                        if let Fragment::Arc(a) = &f.fragment {
                            let c = a.center();
                            if a.major_flag || c.x.is_nan() || c.y.is_nan() {
                                continue;
                            }
                            let a0 = (a.start.y - c.y).atan2(a.start.x - c.x);
                            let a1 = (a.end.y - c.y).atan2(a.end.x - c.x);
                            let two_pi = 2.0 * std::f32::consts::PI;
                            let mut delta = a1 - a0;
                            if a.sweep_flag {
                                while delta < 0.0 { delta += two_pi; }
                            } else {
                                while delta > 0.0 { delta -= two_pi; }
                            }
                            for k in 0..=16 {
                                let t = a0 + delta * k as f32 / 16.0;
                                let (x, y) = ((c.x + a.radius * t.cos()) * scale, (c.y + a.radius * t.sin()) * scale);
                                let eps = 1e-3 * scale;
                                if x < -eps || y < -eps || x > cw + eps || y > chh + eps {
                                    println!("BOUNDED-WITNESS {} arc drawing {:?} at scale {}: the curve of {:?} reaches ({},{}) on a {}x{} canvas", kind, text, scale, a, x, y, cw, chh);
                                    panic!("everything drawn from the cell map lies inside the canvas");
                                }
                            }
                        }
                    }
                    n += 1;
                }
            }
        }
        println!("BOUNDED-CASES {}", n);
    }

    /// WITNESS of a known finding (C10): quotes pair up along the whole row, so two separated drawings that each
    /// contain one unbalanced quote are not independent.  Fails while the behaviour is present.
    #[test]
    fn witness_unbalanced_quotes_pair_across_gap() {
        let (a, b) = ("a\"b", "c\"d");
        let cells = |cb: &CellBuffer, dx: i32| cb.iter().map(|(c, ch)| (Cell::new(c.x + dx, c.y), *ch)).collect::<Vec<_>>();
        let (ca, cb_) = (CellBuffer::from(a), CellBuffer::from(b));
        let both = CellBuffer::from(format!("{}   {}", a, b).as_str());
        let mut want = cells(&ca, 0);
        want.extend(cells(&cb_, 6));
        if cells(&both, 0) != want || both.escaped_text.len() != ca.escaped_text.len() + cb_.escaped_text.len() {
            println!("BOUNDED-WITNESS {:?} and {:?} three columns apart: cells {:?} quoted {:?}; alone: cells {:?} quoted none", a, b, cells(&both, 0), both.escaped_text, want);
            panic!("separated drawings are independent");
        }
    }

    /// WITNESS of a known finding (C05): a box whose sides are one row high and drawn with ':' (or '!') only is not
    /// recognised (the ':' needs a strong vertical neighbour, a '+' corner is only medium).  Fails while present.
    #[test]
    fn witness_dashed_sides_one_row() {
        // control first: the same box with '|' sides, and with two rows of ':', is one rect and nothing else
        for text in ["+--+\n|  |\n+--+\n", "+--+\n:  :\n:  :\n+--+\n", "+--+\n:  :\n+--+\n", "+--+\n!  !\n+--+\n"] {
            let cb = CellBuffer::from(text);
            let (frags, groups) = cb.get_fragment_spans();
            let rects = frags.iter().filter(|f| matches!(f.fragment, Fragment::Rect(_))).count();
            let others = frags.len() - rects + groups.iter().map(|g| g.len()).sum::<usize>();
            if rects != 1 || others != 0 {
                println!("BOUNDED-WITNESS box {:?}: {} rect(s), {} other fragments or unendorsed cells", text, rects, others);
                panic!("a closed box is exactly one rect");
            }
        }
    }

    /// C09 ("nor the same line twice") on the real pipeline (spans, contacts, endorse, re_endorse): every character
    /// of the ascii and unicode tables, alone, doubled, stacked, and inside a label, never yields one fragment twice
    #[test]
    fn bounded_isolated_characters_once() {
        let mut chars: Vec<char> = crate::map::ascii_map::ASCII_PROPERTIES.keys().copied().collect();
        chars.extend(crate::map::unicode_map::UNICODE_FRAGMENTS.keys().copied());
        chars.sort();
        chars.dedup();
        let mut n = 0u64;
        for ch in chars {
            if ch == '"' {
                continue;
            }
            let texts = [
                format!("\n\n   {}\n", ch),
                format!("{}\n", ch),
                format!("  {}{}\n", ch, ch),
                format!(" {}\n {}\n", ch, ch),
                format!("width {} 10\n", ch),
                format!("{} {}\n", ch, ch),
            ];
            for text in texts {
                let cb = CellBuffer::from(text.as_str());
                let Endorse { accepted: singles, rejects: groups } = cb.endorse_to_fragment_spans();
                let mut all: Vec<String> = singles.iter().map(|f| format!("{:?}", f.fragment)).collect();
                for g in &groups {
                    all.extend(g.iter().map(|f| format!("{:?}", f.fragment)));
                }
                let total = all.len();
                all.sort();
                all.dedup();
                if all.len() != total {
                    println!("BOUNDED-WITNESS {:?}: {} fragments, {} distinct", text, total, all.len());
                    panic!("the same fragment is never emitted twice");
                }
                n += 1;
            }
        }
        println!("BOUNDED-CASES {}", n);
    }

    /// C01 on the entry points themselves (bounded stand-in): no panic for short inputs over an alphabet of the
    /// characters the statement names (zero-width, control, non-BMP, double-width, unbalanced quotes and braces,
    /// legend fragments, the one arc glyph whose centre is NaN), and for the small bundled diagrams
    #[test]
    fn bounded_entry_points_total() {
        let alphabet = ['\u{301}', '\u{200d}', '\u{fe0f}', '\0', '\t', '\r', '\u{c}', '\u{7f}', '\u{ffff}', '😀', '一', '"', '\\', '{', '}', '#',
            '=', '-', '|', '+', '*', 'a', ' ', '\n', '⤹', '>', '.', '\'', ':', '_', '/'];
        let mut inputs: Vec<String> = words(&alphabet, 3);
        if thorough() {
            // four characters over the half of the alphabet that is not plain drawing, and two larger bundled diagrams
            inputs.extend(words(&alphabet[..16], 4).into_iter().filter(|w| w.chars().count() == 4));
        }
        for extra in ["# Legend:", "# Legend:\n", "x\n# Legend:  \n\n   \n", "# Legend:\na = {", "# Legend:\na = }\n", "x\n# Legend:\n= {}", "\"\\", "\"\\\"", "{a", "a}", "⤹>-+-+-+-+-\n   | | | |\n"] {
            inputs.push(extra.to_string());
        }
        let files: &[&str] = if thorough() { &["merge.bob", "simple.bob", "circuits.bob", "circles_generated.bob", "example.bob"] } else { &["merge.bob", "simple.bob", "circuits.bob"] };
        for file in files {
            let path = format!("{}/test_data/{}", env!("CARGO_MANIFEST_DIR"), file);
            inputs.push(std::fs::read_to_string(&path).expect("bundled diagram"));
        }
        // the conversions run on a worker thread; the test thread is the watchdog: "never hangs" is part of C01
        let total = inputs.len();
        let shared = std::sync::Arc::new(inputs);
        let worker_inputs = shared.clone();
        let (tx, rx) = std::sync::mpsc::channel::<(usize, bool)>();
        std::panic::set_hook(Box::new(|_| {}));
        std::thread::spawn(move || {
            for (k, text) in worker_inputs.iter().enumerate() {
                let all = text.chars().count() <= 2 || k + 20 > worker_inputs.len();
                let r = std::panic::catch_unwind(|| {
                    let mut len = crate::to_svg_string_compressed(text).len();
                    if all {
                        len += crate::to_svg(text).len() + crate::to_svg_string_pretty(text).len();
                        for scale in [0.001f32, 8.0, 1.0e6] {
                            let st = Settings { scale, ..Settings::default() };
                            len += crate::to_svg_with_settings(text, &st).len();
                            len += crate::to_svg_with_override_size(text, &st, 3.0, 7.5).len();
                        }
                    }
                    len
                });
                let ok = matches!(r, Ok(len) if len > 0);
                if tx.send((k, ok)).is_err() || !ok {
                    return;
                }
            }
        });
        let mut n = 0u64;
        let mut next = 0usize;
        while next < total {
            // the slowest legitimate input (a bundled diagram through five entry points) takes a few seconds
            match rx.recv_timeout(std::time::Duration::from_secs(if thorough() { 900 } else { 120 })) {
                Ok((k, true)) => {
                    next = k + 1;
                    n += 1;
                }
                Ok((k, false)) => {
                    let _ = std::panic::take_hook();
                    println!("BOUNDED-WITNESS conversion of {:?} panicked or returned nothing", shared[k].chars().take(80).collect::<String>());
                    panic!("conversion is total");
                }
                Err(_) => {
                    let _ = std::panic::take_hook();
                    println!("BOUNDED-WITNESS conversion of {:?} did not return within the watchdog limit (120 s quick, 900 s thorough)", shared[next].chars().take(80).collect::<String>());
                    panic!("conversion terminates");
                }
            }
        }
        let _ = std::panic::take_hook();
        println!("BOUNDED-CASES {}", n);
    }

    /// elements of a rendered document outside <style> and <defs>: tag, class string, the numbers of its length
    /// attributes (for a path the rotation and the two flags of the arc command are left out)
    fn length_attributes(svg: &str) -> Vec<(String, String, Vec<f64>)> {
        let mut body = svg.to_string();
        for (open, close) in [("<style", "</style>"), ("<defs", "</defs>")] {
            while let Some(i) = body.find(open) {
                match body[i..].find(close) {
                    Some(j) => body.replace_range(i..i + j + close.len(), ""),
                    None => break,
                }
            }
        }
        let mut out = vec![];
        let mut rest = body.as_str();
        while let Some(i) = rest.find('<') {
            rest = &rest[i + 1..];
            if rest.starts_with('/') || rest.starts_with('?') || rest.starts_with('!') {
                continue;
            }
            let end = rest.find('>').unwrap_or(rest.len());
            let inner = &rest[..end];
            let tag: String = inner.chars().take_while(|c| !c.is_whitespace() && *c != '/').collect();
            let mut class = String::new();
            let mut nums = vec![];
            let mut attrs = &inner[tag.len()..];
            while let Some(eq) = attrs.find("=\"") {
                let name = attrs[..eq].trim().to_string();
                let vstart = eq + 2;
                let vend = attrs[vstart..].find('"').map(|k| vstart + k).unwrap_or(attrs.len());
                let value = &attrs[vstart..vend];
                if name == "class" {
                    class = value.to_string();
                } else if ["x", "y", "x1", "y1", "x2", "y2", "cx", "cy", "r", "rx", "ry", "width", "height", "points", "d"].contains(&name.as_str()) {
                    let mut v: Vec<f64> = value
                        .split(|c: char| !(c.is_ascii_digit() || c == '.' || c == '-' || c == 'e' || c == '+'))
                        .filter(|t| !t.is_empty())
                        .filter_map(|t| t.parse::<f64>().ok())
                        .collect();
                    if name == "d" && v.len() == 9 {
                        v.drain(4..7);
                    }
                    nums.extend(v);
                }
                attrs = &attrs[(vend + 1).min(attrs.len())..];
            }
            out.push((tag, class, nums));
        }
        out
    }

    /// C11 end to end (bounded stand-in): rendering at scale s is the rendering at scale 1 with every length
    /// multiplied by s - same elements, same order, same classes.  Text inside shapes is left out of the corpus
    /// (known finding C11.text_bounds_unscaled_width).
    #[test]
    fn bounded_render_scales_linearly() {
        let corpus = [
            "*---", "---*", "o--", "--o", "O-->", "<--", "*--*", "*--+", "-*-", "*\n|\n", "|\n*\n", " *\n/\n", "^\n|\nv\n", "-->", "<->", "==", "::\n::", "~~",
            "+--+\n|  |\n+--+\n", "+---+\n|   |\n+---+\n", ".--.\n|  |\n'--'\n", ".--.\n|  |-\n'--'\n", ",--.\n|  |-\n`--'\n", " .-.\n(   )\n `-'\n", "  )\n-'\n", " ,-.\n(\n",
            "/\\\n\\/\n", "_/‾", "abc def", "é一 x", "┌─┐\n│ │\n└─┘\n", "───▶", "◀──", "a --> b", "+--+  txt\n|  |\n+--+\n", "\\|/\n-+-\n/|\\\n", "  ^\n /\n/\n", "\\\n \\\n  V\n",
        ];
        let render = |text: &str, scale: f32| {
            let st = Settings { scale, ..Settings::default() };
            crate::to_svg_with_settings(text, &st)
        };
        // tags and labels inside boxes are compared from scale 1 upwards only: below 1 the known finding
        // C11.text_bounds_unscaled_width changes which tag attaches
        let boxed = [
            "+--------+\n|     {a}|\n+--------+\n", "+-----+\n| {a} |\n+-----+\n", ".------.\n|{r}   |\n'------'\n", "+-------+\n| hello |\n+-------+\n",
            "+--------+\n|{a}     |\n+--------+\n", "+---+\n|{a}|\n+---+\n",
        ];
        let mut n = 0u64;
        for (text, scales) in corpus.iter().map(|t| (*t, &[0.5f32, 3.0, 8.0, 37.5][..])).chain(boxed.iter().map(|t| (*t, &[3.0f32, 8.0, 37.5][..]))) {
            let base = length_attributes(&render(text, 1.0));
            for &scale in scales {
                let got = length_attributes(&render(text, scale));
                let same_shape = got.len() == base.len() && got.iter().zip(base.iter()).all(|(g, b)| g.0 == b.0 && g.1 == b.1 && g.2.len() == b.2.len());
                let mut worst: Option<(String, f64, f64)> = None;
                if same_shape {
                    for (g, b) in got.iter().zip(base.iter()) {
                        for (x, y) in g.2.iter().zip(b.2.iter()) {
                            let want = y * scale as f64;
                            if (x - want).abs() > 1e-3 * want.abs().max(1.0) {
                                worst = Some((g.0.clone(), *x, want));
                            }
                        }
                    }
                }
                if !same_shape || worst.is_some() {
                    println!("BOUNDED-WITNESS {:?} at scale {}: {:?}; scale 1: {:?}; first mismatch {:?}", text, scale, got, base, worst);
                    panic!("every length scales, nothing else changes");
                }
                n += 1;
            }
        }
        println!("BOUNDED-CASES {}", n);
    }

    /// WITNESS of a known finding (C15): quoted text becomes an ordinary CellText fragment, so a quoted "{a}" inside
    /// a rectangle is taken as a tag of the rectangle instead of being emitted verbatim.  Fails while present.
    #[test]
    fn witness_quoted_tag_styles_its_box() {
        let render = |text: &str| crate::to_svg_string_compressed(text);
        // control: any other quoted text in the box is a text element and leaves the rect alone
        let control = render("+-------+\n| \"a-b\" |\n+-------+\n");
        assert!(control.contains(">a-b</text>") && control.contains("class=\"solid nofill\""), "control: {}", control);
        let got = render("+-------+\n| \"{a}\" |\n+-------+\n");
        if !got.contains(">{a}</text>") || !got.contains("class=\"solid nofill\"") {
            let rect = got.find("<rect x=").map(|i| &got[i..got[i..].find('>').unwrap() + i + 1]);
            println!("BOUNDED-WITNESS box with the quoted text {{a}}: {} text element(s), rect {:?}", got.matches("<text").count(), rect);
            panic!("quoted text is emitted verbatim and changes nothing outside of it");
        }
    }

    /// the cell filter of `From<StringBuffer> for CellBuffer`, driven through the real conversion for every Unicode
    /// scalar value: a character becomes a cell (in column 1, after the 'x' in front of it) iff it is neither NUL,
    /// nor white space, nor a double quote; nothing else on the row is disturbed
    #[test]
    fn bounded_cell_filter_all_chars() {
        let mut n = 0u64;
        for code in 0..=0x10ffffu32 {
            let ch = match char::from_u32(code) {
                Some(c) => c,
                None => continue,
            };
            if ch == '"' || ch == '\n' || ch == '\r' {
                continue; // quotes are C15's business (escape_line), line ends are the string buffer's (T6)
            }
            let text: String = ['x', ch, 'y'].iter().collect();
            let cb = CellBuffer::from(text.as_str());
            let got: Vec<(Cell, char)> = cb.iter().map(|(c, k)| (*c, *k)).collect();
            let wide = unicode_width::UnicodeWidthChar::width(ch).unwrap_or(1).max(1) as i32;
            let mut want = vec![(Cell::new(0, 0), 'x')];
            if ch != '\0' && !ch.is_whitespace() {
                want.push((Cell::new(1, 0), ch));
            }
            want.push((Cell::new(1 + wide, 0), 'y'));
            if got != want {
                println!("BOUNDED-WITNESS row x U+{:04X} y: cells {:?}, want {:?}", code, got, want);
                panic!("blanks never become cells, everything else does, in its own column");
            }
            n += 1;
        }
        println!("BOUNDED-CASES {}", n);
    }

    /// every stroke of a diagram of - | + (lines and rect outlines, through the real pipeline), cut into pieces of a
    /// quarter unit so that merging and rect recognition do not matter; None when something is not axis-parallel
    fn stroke_pieces(text: &str) -> Option<std::collections::BTreeSet<(i32, i32, i32, i32)>> {
        let cb = CellBuffer::from(text);
        let Endorse { accepted, rejects } = cb.endorse_to_fragment_spans();
        let mut lines: Vec<(Point, Point)> = vec![];
        for f in accepted.iter().chain(rejects.iter().flatten()) {
            match &f.fragment {
                Fragment::Line(l) => lines.push((l.start, l.end)),
                Fragment::MarkerLine(m) => lines.push((m.line.start, m.line.end)),
                Fragment::Rect(r) => {
                    let (a, b) = (r.start, r.end);
                    lines.push((Point::new(a.x, a.y), Point::new(b.x, a.y)));
                    lines.push((Point::new(a.x, b.y), Point::new(b.x, b.y)));
                    lines.push((Point::new(a.x, a.y), Point::new(a.x, b.y)));
                    lines.push((Point::new(b.x, a.y), Point::new(b.x, b.y)));
                }
                Fragment::CellText(_) | Fragment::Text(_) => {}
                _ => return None,
            }
        }
        let mut out = std::collections::BTreeSet::new();
        for (p, q) in lines {
            let (x0, y0, x1, y1) = ((p.x * 4.0).round() as i32, (p.y * 4.0).round() as i32, (q.x * 4.0).round() as i32, (q.y * 4.0).round() as i32);
            if y0 == y1 {
                for x in x0.min(x1)..x0.max(x1) {
                    out.insert((x, y0, x + 1, y0));
                }
            } else if x0 == x1 {
                for y in y0.min(y1)..y0.max(y1) {
                    out.insert((x0, y, x0, y + 1));
                }
            } else {
                return None;
            }
        }
        Some(out)
    }

    /// C03, last clause ("label characters never change the strokes"), through the real pipeline: blanking the
    /// labels of a grid over {space, -, |, +, a, 7} leaves the set of stroked points as it is
    #[test]
    fn bounded_labels_do_not_change_strokes() {
        // quick tier: one label letter, two shapes (the quick check has to stay within minutes); thorough: two and three
        let alphabet: &[char] = if thorough() { &[' ', '-', '|', '+', 'a', '7'] } else { &[' ', '-', '|', '+', 'a'] };
        let shapes: &[(usize, usize)] = if thorough() { &[(1, 5), (2, 3), (3, 2)] } else { &[(1, 5), (2, 3)] };
        let mut n = 0u64;
        for &(rows, cols) in shapes {
            let cells = rows * cols;
            let total = (alphabet.len() as u64).pow(cells as u32);
            for code in 0..total {
                let mut k = code;
                let mut grid = vec![vec![' '; cols]; rows];
                let mut has_label = false;
                for i in 0..cells {
                    let ch = alphabet[(k % alphabet.len() as u64) as usize];
                    k /= alphabet.len() as u64;
                    grid[i / cols][i % cols] = ch;
                    has_label |= ch == 'a' || ch == '7';
                }
                if !has_label {
                    continue;
                }
                let with: String = grid.iter().map(|r| r.iter().collect::<String>()).collect::<Vec<_>>().join("\n");
                let without: String = with.chars().map(|c| if c == 'a' || c == '7' { ' ' } else { c }).collect();
                let (a, b) = (stroke_pieces(&with), stroke_pieces(&without));
                if a.is_none() || a != b {
                    println!("BOUNDED-WITNESS grid {:?}: strokes {:?}; with the labels blanked: {:?}", with, a, b);
                    panic!("label characters never change the strokes");
                }
                n += 1;
            }
        }
        println!("BOUNDED-CASES {}", n);
    }

    /// WITNESS of a known finding (C11): whether a tag next to the right border styles its box depends on the
    /// scale, because `Text::bounds` adds an unscaled width to a scaled anchor.  Fails while the defect is present.
    #[test]
    fn witness_tag_class_depends_on_scale() {
        let cb = CellBuffer::from("+---+\n|{a}|\n+---+\n");
        let count = |scale: f32| {
            let st = Settings { scale, ..Settings::for_debug() };
            let (node, _, _): (Node<()>, f32, f32) = cb.get_node_with_size(&st);
            let mut out = String::new();
            node.render(&mut out).unwrap();
            (out.matches("<text").count(), out.contains("nofill a"))
        };
        let (a, b) = (count(0.5), count(8.0));
        if a != b {
            println!("BOUNDED-WITNESS box '|{{a}}|': at scale 0.5 (text elements, class applied) = {:?}, at scale 8 = {:?}", a, b);
            panic!("the scale must not change element kinds or classes");
        }
    }

    /// C17: trailing blanks never change what a row yields - cells and quoted texts - also on rows with an odd
    /// number of quotes
    #[test]
    fn bounded_trailing_blanks() {
        let tokens = ['a', '"', '-', ' ', '一'];
        let mut n = 0u64;
        for r in words(&tokens, 4) {
            let base = CellBuffer::from(format!("{}\nz\n", r).as_str());
            for trail in [" ", "   ", "\t", " \t "] {
                for ending in ["\n", "\r\n"] {
                    let text = format!("{}{}{}z{}{}", r, trail, ending, trail, ending);
                    let cb = CellBuffer::from(text.as_str());
                    let same_cells = cb.iter().map(|(c, ch)| (*c, *ch)).eq(base.iter().map(|(c, ch)| (*c, *ch)));
                    if !same_cells || cb.escaped_text != base.escaped_text {
                        println!("BOUNDED-WITNESS trailing blanks {:?} change row {:?}: quoted {:?} vs {:?}", trail, r, cb.escaped_text, base.escaped_text);
                        panic!("trailing blanks do not change the output");
                    }
                    n += 1;
                }
            }
        }
        println!("BOUNDED-CASES {}", n);
    }

    /// C18: an overridden size changes only the root and backdrop dimensions - natively, for sizes smaller and
    /// larger than the drawing (complements the Verus obligation C18.get_node_override_size)
    #[test]
    fn bounded_override_size() {
        let diagrams = ["", "hello", "+--+\n|ab|\n+--+\n", "--+\n  |\n", "  .-.\n (   )  x\n  `-'\n\n            +---+ far\n", "a\n# Legend:\nb = {fill:red}"];
        let sizes = [(1.0f32, 1.0f32), (8.0, 16.0), (40.0, 7.5), (1000.0, 2000.0)];
        let render = |n: &Node<()>| {
            let mut out = String::new();
            n.render(&mut out).unwrap();
            out
        };
        let mut n = 0u64;
        for d in diagrams {
            let cb = CellBuffer::from(d);
            for sw in 0..8u32 {
                let st = Settings { include_backdrop: sw & 1 != 0, include_styles: sw & 2 != 0, include_defs: sw & 4 != 0, ..Settings::default() };
                let (base, bw, bh): (Node<()>, f32, f32) = cb.get_node_with_size(&st);
                for (w, h) in sizes {
                    let over: Node<()> = cb.get_node_override_size(&st, w, h);
                    let strip = |node: &Node<()>, w: f32, h: f32| -> Option<Vec<String>> {
                        let mut v = vec![];
                        for c in node.children() {
                            if c.tag() == Some(&"rect") && c.first_value(&"class").map(|x| x.to_string()).as_deref() == Some("backdrop") {
                                if c.first_value(&"width").and_then(|x| x.as_f32()) != Some(w) || c.first_value(&"height").and_then(|x| x.as_f32()) != Some(h) {
                                    return None;
                                }
                                v.push("<backdrop>".to_string());
                            } else {
                                v.push(render(c));
                            }
                        }
                        Some(v)
                    };
                    let ok = over.first_value(&"width").and_then(|x| x.as_f32()) == Some(w)
                        && over.first_value(&"height").and_then(|x| x.as_f32()) == Some(h)
                        && strip(&over, w, h).is_some()
                        && strip(&over, w, h) == strip(&base, bw, bh);
                    if !ok {
                        println!("BOUNDED-WITNESS override size ({},{}) on diagram {:?} (switches {}): children differ from the computed-size rendering", w, h, d, sw);
                        panic!("an overridden size changes only the root and backdrop dimensions");
                    }
                    n += 1;
                }
            }
        }
        println!("BOUNDED-CASES {}", n);
    }
}
