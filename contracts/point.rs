//! Contracts for `point.rs`.
use super::*;
use crate::__verif::h::*;

/// C11: `Point::scale` multiplies both coordinates (the IEEE product, bit for bit).
pub(crate) fn post_point_scale(p: Point, s: f32, r: Point) -> bool {
    r.x.to_bits() == (p.x * s).to_bits() && r.y.to_bits() == (p.y * s).to_bits()
}

/// O1: `Point::cmp` is row-major (y, then x) on non-NaN points; `==` is coordinate equality.
pub(crate) fn post_point_cmp(a: Point, b: Point, r: Ordering) -> bool {
    let expect = if a.y < b.y {
        Ordering::Less
    } else if a.y > b.y {
        Ordering::Greater
    } else if a.x < b.x {
        Ordering::Less
    } else if a.x > b.x {
        Ordering::Greater
    } else {
        Ordering::Equal
    };
    r == expect
}

#[cfg(kani)]
pub(crate) mod k {
    use super::*;
    use crate::__verif::kh::*;

    #[kani::proof]
    #[kani::solver(cvc5)]
    pub(crate) fn check_point_scale() {
        let p = any_point();
        let s: f32 = kani::any();
        kani::assume(fb_point(p) && valid_scale(s));
        kani::cover!(true);
        let r = p.scale(s);
        assert!(post_point_scale(p, s, r), "post_point_scale");
    }

    #[kani::proof]
    pub(crate) fn check_point_cmp() {
        let a = any_point();
        let b = any_point();
        kani::assume(!a.x.is_nan() && !a.y.is_nan() && !b.x.is_nan() && !b.y.is_nan());
        kani::cover!(true);
        let r = a.cmp(&b);
        assert!(post_point_cmp(a, b, r), "post_point_cmp");
        assert!((a == b) == (a.x == b.x && a.y == b.y), "point eq");
        assert!(a.partial_cmp(&b) == Some(r), "partial_cmp agrees");
    }

    /// G3: `+` and `-` on lattice points are exact and inverse of each other
    #[kani::proof]
    pub(crate) fn check_point_add_sub() {
        let a = any_point();
        let b = any_point();
        kani::assume(grid(a) && grid(b));
        kani::cover!(true);
        let s = a + b;
        assert!(s.x == a.x + b.x && s.y == a.y + b.y, "add is coordinate-wise");
        let d = s - b;
        assert!(eq_point(d, a), "(a+b)-b == a exactly on the lattice");
        assert!(grid_coord_lt(s.x, 524288.0) && grid_coord_lt(s.y, 524288.0), "sum stays on lattice");
    }
}
