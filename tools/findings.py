"""Known findings (/verif/known_findings.txt): never written at run time.

line formats
  property=<id> obligation=<name> witness=<replay file relative to /verif> :: <what fails>
  fixed: property=<id> <commit> <what failed>
A listed finding only prints `KNOWN-FINDING:` while its witness still fails on the current tree.
It never suppresses an obligation: the obligations are verified on the complement of the finding's
region (see DESIGN.md section 6), so a different violation is still reported.
"""
import json
import os
import re

import vlib
import replay as replay_mod

PATH = os.path.join(vlib.VERIF, "known_findings.txt")


def load():
    res = []
    if not os.path.exists(PATH):
        return res
    for line in open(PATH):
        line = line.strip()
        if not line or line.startswith("#") or line.startswith("fixed:"):
            continue
        m = re.match(r"property=(\S+)\s+obligation=(\S+)\s+witness=(\S+)\s*::\s*(.*)", line)
        if m:
            res.append({"property": m.group(1), "obligation": m.group(2), "witness": m.group(3),
                        "what": m.group(4)})
    return res


def replay_known(prop, src, logdir):
    lines, records = [], []
    for k in load():
        if k["property"] != prop:
            continue
        wpath = os.path.join(vlib.VERIF, k["witness"])
        data = json.load(open(wpath))
        if data["kind"] == "native-test":
            failed, text = replay_mod.run_native_test(
                data["test"], src=src, log=os.path.join(logdir, "known-%s.log" % k["obligation"]))
        else:
            failed, text = replay_mod.run_playback(data, src_existing=src, logdir=logdir)
        rec = dict(k)
        rec["still_fails"] = failed
        records.append(rec)
        if failed:
            lines.append("KNOWN-FINDING: property=%s %s (witness %s)" % (prop, k["what"], k["witness"]))
        elif failed is None:
            lines.append("NOTE: witness of known finding %s did not run" % k["obligation"])
    return lines, records
