"""Verus units: which real functions are extracted, with which contract (DESIGN.md T1-T4)."""

SELF_SUBST = [
    (r"\bSelf::(\w+)\(", r"\1::<T>("),
    (r"\bVec<Self>", "Vec<T>"),
]

UNITS = {}

# ---------------------------------------------------------------------------------------------
# merge.rs : the generic merge fix-point (M1 / M2)
# ---------------------------------------------------------------------------------------------
UNITS["merge"] = {
    "prelude": """
pub trait Merge: Sized {
    fn merge(&self, other: &Self) -> Option<Self>;
}
""",
    "assumes": [
        "T1: the trait's default methods are hoisted to generic free functions over T: Merge (Verus: "
        "'trait default methods do not yet support recursion and decreases')",
        "T2: `impl IntoIterator<Item = Self>` parameters become Vec<T> (every call site passes a Vec or a "
        "by-value iterator that is collected first)",
        "vstd's specification of Vec::into_iter / iter_mut / rev / any / collect / push",
    ],
    "min_verified": 2,
    "functions": [
        {
            "name": "merge_recursive", "file": "merge.rs", "within": r"pub trait Merge\b",
            "sig_re": r"fn merge_recursive\(items: impl IntoIterator<Item = Self>\) -> Vec<Self>",
            "header": "fn merge_recursive<T: Merge>(items: Vec<T>) -> (r: Vec<T>)",
            "spec": "    ensures r.len() <= items.len(),\n    decreases items.len(),",
            "subst": SELF_SUBST,
        },
        {
            "name": "second_pass_merge", "file": "merge.rs", "within": r"pub trait Merge\b",
            "sig_re": r"fn second_pass_merge\(items: impl IntoIterator<Item = Self>\) -> Vec<Self>",
            "header": "fn second_pass_merge<T: Merge>(items: Vec<T>) -> (r: Vec<T>)",
            "spec": "    ensures r.len() <= items.len(),",
            "subst": SELF_SUBST,
            "loops": {0: {"iter": "it", "clauses": "            invariant new_groups.len() <= it.index@,"}},
        },
    ],
}

# deliberately false variant: the vacuity canary of the Verus engine
UNITS["merge_canary"] = {
    "prelude": UNITS["merge"]["prelude"],
    "assumes": [],
    "min_verified": 1,
    "functions": [
        {
            "name": "second_pass_merge", "file": "merge.rs", "within": r"pub trait Merge\b",
            "sig_re": r"fn second_pass_merge\(",
            "header": "fn second_pass_merge<T: Merge>(items: Vec<T>) -> (r: Vec<T>)",
            "spec": "    ensures r.len() < items.len(),",
            "subst": SELF_SUBST,
            "loops": {0: {"iter": "it", "clauses": "            invariant new_groups.len() <= it.index@,"}},
        },
    ],
}

# ---------------------------------------------------------------------------------------------
# fragment_tree.rs : the enclosing fix-point (M3)
# ---------------------------------------------------------------------------------------------
UNITS["enclose"] = {
    "prelude": """
pub struct FragmentTree { _opaque: u8 }

impl FragmentTree {
    #[verifier::external_body]
    fn enclose_deep_first(&mut self, other: &Self) -> bool { unimplemented!() }
""",
    "epilogue": "}",
    "assumes": [
        "T4: FragmentTree is opaque and enclose_deep_first is external_body (any result, any effect on the tree it is "
        "called on); its own contract is obligation C16.enclose_deep_first",
        "vstd's specification of Vec::into_iter / iter_mut / rev / any / push",
    ],
    "min_verified": 2,
    "functions": [
        {
            "name": "enclose_recursive", "file": "buffer/fragment_buffer/fragment_tree.rs",
            "within": r"impl FragmentTree\b",
            "sig_re": r"fn enclose_recursive\(fragment_trees: Vec<Self>\) -> Vec<Self>",
            "header": "fn enclose_recursive(fragment_trees: Vec<Self>) -> (r: Vec<Self>)",
            "spec": "    ensures r.len() <= fragment_trees.len(),\n    decreases fragment_trees.len(),",
        },
        {
            "name": "second_pass_enclose", "file": "buffer/fragment_buffer/fragment_tree.rs",
            "within": r"impl FragmentTree\b",
            "sig_re": r"fn second_pass_enclose\(fragment_trees: Vec<Self>\) -> Vec<Self>",
            "header": "fn second_pass_enclose(fragment_trees: Vec<Self>) -> (r: Vec<Self>)",
            "spec": "    ensures r.len() <= fragment_trees.len(),",
            "loops": {0: {"iter": "it", "clauses": "            invariant new_trees.len() <= it.index@,"}},
        },
    ],
}


# ---------------------------------------------------------------------------------------------
# cell_buffer.rs / lib.rs : entry points agree; an overridden size only replaces (w, h)  (C18)
# ---------------------------------------------------------------------------------------------
UNITS["entry_points"] = {
    "prelude": """
// opaque types of the real crate (T4)
pub struct CellBuffer { _o: u8 }
pub struct Settings { _o: u8 }
pub struct NodeT { _o: u8 }          // Node<MSG>
pub struct GroupNodes { _o: u8 }     // Vec<Node<MSG>>
pub struct Fragments { _o: u8 }      // Vec<FragmentSpan>
pub struct Css { _o: u8 }            // String

// callees are deterministic functions of their arguments (uninterpreted); w, h are f32 bit patterns
pub uninterp spec fn spec_get_size(cb: &CellBuffer, s: &Settings) -> (f32, f32);
pub uninterp spec fn spec_legend_css(cb: &CellBuffer) -> Css;
pub uninterp spec fn spec_group(cb: &CellBuffer, s: &Settings) -> (GroupNodes, Fragments);
pub uninterp spec fn spec_fragments_to_node(f: Fragments, css: Css, s: &Settings, w: f32, h: f32) -> NodeT;
pub uninterp spec fn spec_with_children(n: NodeT, g: GroupNodes) -> NodeT;
pub uninterp spec fn spec_default_settings() -> Settings;

/// the document svgbob builds for a cell buffer, settings and a canvas size
pub open spec fn spec_document(cb: &CellBuffer, s: &Settings, w: f32, h: f32) -> NodeT {
    spec_with_children(
        spec_fragments_to_node(spec_group(cb, s).1, spec_legend_css(cb), s, w, h),
        spec_group(cb, s).0,
    )
}

impl NodeT {
    #[verifier::external_body]
    fn with_children(self, g: GroupNodes) -> (r: NodeT)
        ensures r == spec_with_children(self, g),
    { unimplemented!() }
}

impl Settings {
    #[verifier::external_body]
    fn default() -> (r: Settings)
        ensures r == spec_default_settings(),
    { unimplemented!() }
}

impl CellBuffer {
    #[verifier::external_body]
    fn get_size(&self, settings: &Settings) -> (r: (f32, f32))
        ensures r == spec_get_size(self, settings),
    { unimplemented!() }

    #[verifier::external_body]
    fn legend_css(&self) -> (r: Css)
        ensures r == spec_legend_css(self),
    { unimplemented!() }

    #[verifier::external_body]
    fn group_nodes_and_fragments(&self, settings: &Settings) -> (r: (GroupNodes, Fragments))
        ensures r == spec_group(self, settings),
    { unimplemented!() }

    #[verifier::external_body]
    fn fragments_to_node(fragments: Fragments, legend_css: Css, settings: &Settings, w: f32, h: f32) -> (r: NodeT)
        ensures r == spec_fragments_to_node(fragments, legend_css, settings, w, h),
    { unimplemented!() }
""",
    "epilogue": "}",
    "assumes": [
        "T4: CellBuffer, Settings, Node<MSG>, Vec<Node<MSG>>, Vec<FragmentSpan>, String are opaque types; get_size, legend_css, "
        "group_nodes_and_fragments, fragments_to_node, Node::with_children, Settings::default are external_body with "
        "uninterpreted deterministic results (determinism of those callees is C07, not claimed)",
        "T2: the generic parameter <MSG> is dropped (Node<MSG> becomes the opaque NodeT)",
    ],
    "min_verified": 3,
    "functions": [
        {
            "name": "get_node_with_size", "file": "buffer/cell_buffer.rs", "within": r"impl CellBuffer \{",
            "sig_re": r"pub fn get_node_with_size<MSG>\( &self, settings: &Settings, \) -> \(Node<MSG>, f32, f32\)",
            "header": "pub fn get_node_with_size(&self, settings: &Settings) -> (r: (NodeT, f32, f32))",
            "spec": "    ensures r.1 == spec_get_size(self, settings).0, r.2 == spec_get_size(self, settings).1,\n"
                    "            r.0 == spec_document(self, settings, r.1, r.2),",
        },
        {
            "name": "get_node_override_size", "file": "buffer/cell_buffer.rs", "within": r"impl CellBuffer \{",
            "sig_re": r"pub fn get_node_override_size<MSG>\( &self, settings: &Settings, w: f32, h: f32, \) -> Node<MSG>",
            "header": "pub fn get_node_override_size(&self, settings: &Settings, w: f32, h: f32) -> (r: NodeT)",
            "spec": "    ensures r == spec_document(self, settings, w, h),",
        },
        {
            "name": "get_node", "file": "buffer/cell_buffer.rs", "within": r"impl CellBuffer \{",
            "sig_re": r"pub fn get_node<MSG>\(&self\) -> Node<MSG>",
            "header": "pub fn get_node(&self) -> (r: NodeT)",
            "spec": "    ensures r == spec_document(self, &spec_default_settings(), spec_get_size(self, &spec_default_settings()).0,\n"
                    "                              spec_get_size(self, &spec_default_settings()).1),",
        },
    ],
}

# ---------------------------------------------------------------------------------------------
# lib.rs : the five entry points (C18)
# ---------------------------------------------------------------------------------------------
UNITS["lib_entry"] = {
    "prelude": """
pub struct CellBuffer { _o: u8 }
pub struct Settings { _o: u8 }
pub struct NodeT { _o: u8 }          // Node<()>
pub struct RenderError { _o: u8 }
pub struct Out { _o: u8 }            // String (the output buffer)

pub uninterp spec fn spec_from(ascii: &str) -> CellBuffer;
pub uninterp spec fn spec_node_default(cb: &CellBuffer) -> NodeT;
pub uninterp spec fn spec_node_with_size(cb: &CellBuffer, s: &Settings) -> (NodeT, f32, f32);
pub uninterp spec fn spec_node_override(cb: &CellBuffer, s: &Settings, w: f32, h: f32) -> NodeT;
pub uninterp spec fn spec_render_pretty(n: &NodeT) -> Out;      // Node::render into an empty buffer
pub uninterp spec fn spec_render_compressed(n: &NodeT) -> Out;  // Node::render_to_string
pub uninterp spec fn spec_empty() -> Out;

impl Out {
    #[verifier::external_body]
    pub fn new() -> (r: Out) ensures r == spec_empty() { unimplemented!() }
}

pub enum Res { Ok(()), Err(RenderError) }
impl Res {
    /// `fmt::Write for String` never fails (std): the result is always Ok
    #[verifier::external_body]
    pub fn expect(self, _msg: &str) -> (r: ()) { unimplemented!() }
}

impl NodeT {
    #[verifier::external_body]
    pub fn render(&self, buffer: &mut Out) -> (r: Res)
        requires *old(buffer) == spec_empty(),
        ensures *final(buffer) == spec_render_pretty(self),
    { unimplemented!() }

    #[verifier::external_body]
    pub fn render_to_string(&self) -> (r: Out) ensures r == spec_render_compressed(self) { unimplemented!() }
}

impl CellBuffer {
    #[verifier::external_body]
    pub fn from(ascii: &str) -> (r: CellBuffer) ensures r == spec_from(ascii) { unimplemented!() }
    #[verifier::external_body]
    pub fn get_node(&self) -> (r: NodeT) ensures r == spec_node_default(self) { unimplemented!() }
    #[verifier::external_body]
    pub fn get_node_with_size(&self, settings: &Settings) -> (r: (NodeT, f32, f32)) ensures r == spec_node_with_size(self, settings) { unimplemented!() }
    #[verifier::external_body]
    pub fn get_node_override_size(&self, settings: &Settings, w: f32, h: f32) -> (r: NodeT) ensures r == spec_node_override(self, settings, w, h) { unimplemented!() }
}
""",
    "assumes": [
        "T4: CellBuffer::from, get_node*, Node::render, render_to_string are external_body with uninterpreted deterministic results; "
        "Result::expect on the render result never panics (fmt::Write for String is infallible, std)",
        "T2: `String` (output buffer) and `Node<()>` become opaque types; type ascriptions `: Node<()>` / `(Node<()>, f32, f32)` are rewritten accordingly",
    ],
    "min_verified": 5,
    "functions": [
        {
            "name": "to_svg", "file": "lib.rs",
            "sig_re": r"pub fn to_svg\(ascii: &str\) -> String",
            "header": "pub fn to_svg(ascii: &str) -> (r: Out)",
            "spec": "    ensures r == spec_render_pretty(&spec_node_default(&spec_from(ascii))),",
        },
        {
            "name": "to_svg_string_pretty", "file": "lib.rs",
            "sig_re": r"pub fn to_svg_string_pretty\(ascii: &str\) -> String",
            "header": "pub fn to_svg_string_pretty(ascii: &str) -> (r: Out)",
            "spec": "    ensures r == spec_render_pretty(&spec_node_default(&spec_from(ascii))),",
            "subst": [(r": Node<\(\)>", ": NodeT"), (r"String::new\(\)", "Out::new()")],
        },
        {
            "name": "to_svg_string_compressed", "file": "lib.rs",
            "sig_re": r"pub fn to_svg_string_compressed\(ascii: &str\) -> String",
            "header": "pub fn to_svg_string_compressed(ascii: &str) -> (r: Out)",
            "spec": "    ensures r == spec_render_compressed(&spec_node_default(&spec_from(ascii))),",
            "subst": [(r": Node<\(\)>", ": NodeT")],
        },
        {
            "name": "to_svg_with_settings", "file": "lib.rs",
            "sig_re": r"pub fn to_svg_with_settings\(ascii: &str, settings: &Settings\) -> String",
            "header": "pub fn to_svg_with_settings(ascii: &str, settings: &Settings) -> (r: Out)",
            "spec": "    ensures r == spec_render_pretty(&spec_node_with_size(&spec_from(ascii), settings).0),",
            "subst": [(r": \(Node<\(\)>, f32, f32\)", ": (NodeT, f32, f32)"), (r"String::new\(\)", "Out::new()")],
        },
        {
            "name": "to_svg_with_override_size", "file": "lib.rs",
            "sig_re": r"pub fn to_svg_with_override_size\( ascii: &str, settings: &Settings, w: f32, h: f32, \) -> String",
            "header": "pub fn to_svg_with_override_size(ascii: &str, settings: &Settings, w: f32, h: f32) -> (r: Out)",
            "spec": "    ensures r == spec_render_pretty(&spec_node_override(&spec_from(ascii), settings, w, h)),",
            "subst": [(r": Node<\(\)>", ": NodeT"), (r"String::new\(\)", "Out::new()")],
        },
    ],
}

# ---------------------------------------------------------------------------------------------
# text.rs : CellText::can_merge / merge for every content (T2 / T3), columns() uninterpreted
# ---------------------------------------------------------------------------------------------
UNITS["celltext"] = {
    "prelude": """
#[derive(Clone, Copy, PartialEq, Eq)]
pub struct Cell { pub x: i32, pub y: i32 }

pub struct CellText { pub start: Cell, pub content: String }

/// the number of cells a content occupies (CellText::columns): uninterpreted here, its meaning is the
/// bounded obligation T2.celltext_columns_all_chars
pub uninterp spec fn spec_columns(content: Seq<char>) -> int;

/// `format!("{}{}", a, b)` (T5: the macro call is rewritten to this external function)
#[verifier::external_body]
fn concat(a: &String, b: &String) -> (r: String)
    ensures r@ == a@ + b@,
{ unimplemented!() }

impl CellText {
    pub fn new(start: Cell, content: String) -> (r: Self)
        ensures r.start == start, r.content@ == content@,
    { CellText { start, content } }

    #[verifier::external_body]
    fn columns(&self) -> (r: i32)
        ensures r as int == spec_columns(self.content@), 0 <= r <= 0x100000,
    { unimplemented!() }

    pub open spec fn valid(&self) -> bool {
        0 <= self.start.x < 0x20000 && 0 <= self.start.y < 0x20000
    }

    /// a is directly followed by b on the same row
    pub open spec fn then(a: &CellText, b: &CellText) -> bool {
        a.start.y == b.start.y && a.start.x + spec_columns(a.content@) == b.start.x
    }
""",
    "epilogue": "}",
    "assumes": [
        "T4: CellText::columns is external_body with an uninterpreted result in [0, 2^20] (its meaning: T2.celltext_columns_all_chars)",
        "T5: `format!(\"{}{}\", a, b)` is rewritten to `concat(&a, &b)`, an external function whose result is the concatenation "
        "(std formatting of two Strings, assumed)",
        "Cell and CellText are re-declared with the same fields (start: Cell {x, y: i32}, content: String)",
    ],
    "min_verified": 2,
    "functions": [
        {
            "name": "can_merge", "file": "buffer/fragment_buffer/fragment/text.rs", "within": r"impl CellText \{",
            "sig_re": r"pub\(crate\) fn can_merge\(&self, other: &Self\) -> bool",
            "header": "pub(crate) fn can_merge(&self, other: &Self) -> (r: bool)",
            "spec": "    requires self.valid(), other.valid(),\n"
                    "    ensures r == (Self::then(self, other) || Self::then(other, self)),",
        },
        {
            "name": "merge", "file": "buffer/fragment_buffer/fragment/text.rs", "within": r"impl CellText \{",
            "sig_re": r"pub\(crate\) fn merge\(&self, other: &Self\) -> Option<Self>",
            "header": "pub(crate) fn merge(&self, other: &Self) -> (r: Option<Self>)",
            "spec": "    requires self.valid(), other.valid(),\n"
                    "    ensures\n"
                    "        r.is_some() == (Self::then(self, other) || Self::then(other, self)),\n"
                    "        r.is_some() && self.start.x < other.start.x ==> r.unwrap().start == self.start && r.unwrap().content@ == self.content@ + other.content@,\n"
                    "        r.is_some() && !(self.start.x < other.start.x) ==> r.unwrap().start == other.start && r.unwrap().content@ == other.content@ + self.content@,\n"
                    "        // the statement's form: the text that comes first on the row comes first in the content\n"
                    "        Self::then(self, other) && spec_columns(self.content@) > 0 ==> r.is_some() && r.unwrap().start == self.start && r.unwrap().content@ == self.content@ + other.content@,\n"
                    "        Self::then(other, self) && spec_columns(other.content@) > 0 ==> r.is_some() && r.unwrap().start == other.start && r.unwrap().content@ == other.content@ + self.content@,",
            "subst": [(r'format!\("\{\}\{\}", ([\w\.]+), ([\w\.]+)\)', r"concat(&\1, &\2)")],
        },
    ],
}

# ---------------------------------------------------------------------------------------------
# contacts.rs : endorse_rects is a partition, for any number of groups (G2)
# ---------------------------------------------------------------------------------------------
UNITS["endorse_rects"] = {
    "prelude": """
pub struct Fragment { _o: u8 }
pub struct Span { _o: u8 }
pub struct FragmentSpan { _o: u8 }
pub struct Contacts { _o: u8 }
pub struct Endorse<T, E> { pub accepted: Vec<T>, pub rejects: Vec<E> }

impl FragmentSpan {
    #[verifier::external_body]
    pub fn new(span: Span, fragment: Fragment) -> (r: FragmentSpan) { unimplemented!() }
}

impl Contacts {
    #[verifier::external_body]
    pub(crate) fn endorse_rect(&self) -> (r: Option<Fragment>) { unimplemented!() }

    #[verifier::external_body]
    pub fn span(&self) -> (r: Span) { unimplemented!() }
""",
    "epilogue": "}",
    "assumes": [
        "T4: Fragment, Span, FragmentSpan, Contacts are opaque; Contacts::endorse_rect / span and FragmentSpan::new are external_body (any result)",
        "vstd's specification of Vec::push and of iterating a Vec by value",
    ],
    "min_verified": 1,
    "functions": [
        {
            "name": "endorse_rects", "file": "buffer/cell_buffer/contacts.rs", "within": r"impl Contacts \{",
            "sig_re": r"pub\(crate\) fn endorse_rects\( contacts: Vec<Contacts>, \) -> Endorse<FragmentSpan, Contacts>",
            "header": "pub(crate) fn endorse_rects(contacts: Vec<Contacts>) -> (r: Endorse<FragmentSpan, Contacts>)",
            "spec": "    ensures r.accepted.len() + r.rejects.len() == contacts.len(),",
            "loops": {0: {"iter": "it", "clauses": "            invariant accepted.len() + rejects.len() == it.index@,"}},
        },
    ],
}
