"""Shared machinery for the svgbob contract checks.

Everything here works on a *copy* of /repo's current working tree (never HEAD, never /repo
itself).  See DESIGN.md section 2.
"""
import hashlib
import json
import os
import re
import shutil
import subprocess
import sys
import time

VERIF = os.path.dirname(os.path.dirname(os.path.abspath(__file__)))
REPO = os.environ.get("VERIF_REPO", "/repo")
WORK = os.environ.get("VERIF_WORK", "/var/tmp/svgbob-verif")
CONTRACTS = os.path.join(VERIF, "contracts")
CRATE_SRC = "crates/svgbob/src"
JOBS = int(os.environ.get("VERIF_JOBS", "16"))

ENV = dict(os.environ)
ENV["CARGO_NET_OFFLINE"] = "true"
ENV.pop("RUSTFLAGS", None)


def sha256_file(path):
    h = hashlib.sha256()
    with open(path, "rb") as f:
        h.update(f.read())
    return h.hexdigest()


def run(cmd, cwd=None, timeout=None, env=None, out=None):
    """Run a command, capture stdout+stderr to a file (or memory). Returns (rc, text, wall)."""
    t0 = time.time()
    e = dict(ENV)
    if env:
        e.update(env)
    # own process group: on a time-out the whole tree goes (cargo's child - a hanging test binary - would otherwise
    # survive as an orphan and keep a core busy for hours)
    proc = subprocess.Popen(cmd, cwd=cwd, env=e, stdout=subprocess.PIPE, stderr=subprocess.STDOUT,
                            start_new_session=True)
    try:
        out_b, _ = proc.communicate(timeout=timeout)
        text = out_b.decode("utf-8", "replace")
        rc = proc.returncode
    except subprocess.TimeoutExpired:
        import signal
        try:
            os.killpg(proc.pid, signal.SIGKILL)
        except OSError:
            pass
        try:
            out_b, _ = proc.communicate(timeout=30)
        except Exception:
            out_b = b""
        text = (out_b or b"").decode("utf-8", "replace") + "\n<<TIMEOUT>>\n"
        rc = 124
    if out:
        with open(out, "w") as f:
            f.write(text)
    return rc, text, time.time() - t0


# ---------------------------------------------------------------------------------------------
# snapshot + injection
# ---------------------------------------------------------------------------------------------

INJECT_TMPL = ('\n#[cfg(any(kani, svgbob_verif))]\n#[allow(warnings)]\n#[path = "{path}"]\n'
               'pub(crate) mod __verif;\n')

LINTS = ('\n[lints.rust]\nunexpected_cfgs = { level = "allow", check-cfg = '
         "['cfg(kani)', 'cfg(svgbob_verif)'] }\n")


def contract_files():
    """Yield (relative source path inside the crate src dir, absolute contract path)."""
    res = []
    for root, _dirs, files in os.walk(CONTRACTS):
        if os.path.basename(root) in ("verus", "common"):
            continue
        if "/verus" in root or "/common" in root:
            continue
        for f in files:
            if f.endswith(".rs"):
                absf = os.path.join(root, f)
                rel = os.path.relpath(absf, CONTRACTS)
                res.append((rel, absf))
    return sorted(res)


def snapshot(tag, inject=True, only=None):
    """Copy /repo's working tree to WORK/<tag>/src and append the contract modules.

    Returns (srcdir, info) where info records file hashes and the injected lines.
    `only`: optional set of relative contract paths to inject (others skipped).
    """
    base = os.path.join(WORK, tag)
    src = os.path.join(base, "src")
    os.makedirs(src, exist_ok=True)
    rc, text, _ = run(["rsync", "-rlpgoD", "--checksum", "--delete", "--exclude", "/target", "--exclude", "/.git",
                       "--exclude", "/snapcraft", REPO + "/", src + "/"])
    if rc != 0:
        raise RuntimeError("rsync failed: " + text)
    info = {"files": {}, "injected": []}
    if not inject:
        return src, info
    for rel, absf in contract_files():
        if only is not None and rel not in only:
            continue
        target = os.path.join(src, CRATE_SRC, rel)
        if not os.path.exists(target):
            info.setdefault("lost_anchor", []).append(rel)
            continue
        info["files"][os.path.join(CRATE_SRC, rel)] = sha256_file(os.path.join(REPO, CRATE_SRC, rel))
        line = INJECT_TMPL.format(path=absf)
        with open(target, "a") as f:
            f.write(line)
        info["injected"].append({"file": os.path.join(CRATE_SRC, rel), "appended": line.strip()})
    cargo = os.path.join(src, "crates/svgbob/Cargo.toml")
    with open(cargo, "a") as f:
        f.write(LINTS)
    # offline config for cargo kani (rejects --offline)
    os.makedirs(os.path.join(src, ".cargo"), exist_ok=True)
    with open(os.path.join(src, ".cargo/config.toml"), "w") as f:
        f.write("[net]\noffline = true\n")
    return src, info


# ---------------------------------------------------------------------------------------------
# Kani
# ---------------------------------------------------------------------------------------------

LANE = os.environ.get("VERIF_LANE", "")


class target_lock:
    """Exclusive lock on a build directory.  cargo's unit directories do not depend on the path of a
    path dependency: two checks that build different snapshots into one target directory at the same
    time would overwrite (and then verify / run) each other's artifacts.  Build + use is one critical
    section."""

    def __init__(self, target_dir):
        self.path = os.path.join(target_dir, ".verif-lock")

    def __enter__(self):
        import fcntl
        self.f = open(self.path, "w")
        fcntl.flock(self.f, fcntl.LOCK_EX)
        return self

    def __exit__(self, *a):
        import fcntl
        fcntl.flock(self.f, fcntl.LOCK_UN)
        self.f.close()


def kani_target_dir():
    # one build directory per lane: cargo's unit directories do not depend on the path of a path
    # dependency, so two snapshots built concurrently into one target dir overwrite each other's artifacts
    d = os.path.join(WORK, "target-kani" + LANE)
    os.makedirs(d, exist_ok=True)
    return d


def native_target_dir():
    d = os.path.join(WORK, "target-native" + LANE)
    os.makedirs(d, exist_ok=True)
    return d


HARNESS_RE = re.compile(r"^Checking harness (\S+?)\.\.\.\s*$")


def parse_kani_output(text):
    """Split Kani (terse) output into per-harness records.

    Returns dict harness -> {status, failed_checks:[...], covers:{sat,unsat,unreach}, time, raw}
    status in {SUCCESSFUL, FAILED, TIMEOUT, UNKNOWN}
    """
    res = {}
    cur = None
    buf = []

    def close():
        if cur is None:
            return
        raw = "\n".join(buf)
        rec = {"raw": raw, "failed_checks": [], "cover_sat": 0, "cover_other": 0,
               "status": "UNKNOWN", "time": None, "undetermined": 0}
        m = re.search(r"VERIFICATION:- (\w+)", raw)
        if m:
            rec["status"] = m.group(1)
        if "CBMC timed out" in raw or "timed out" in raw.lower() and not m:
            rec["status"] = "TIMEOUT"
        m = re.search(r"Verification Time: ([0-9.]+)s", raw)
        if m:
            rec["time"] = float(m.group(1))
        m = re.search(r"\*\* (\d+) of (\d+) failed", raw)
        if m:
            rec["n_failed"] = int(m.group(1))
            rec["n_checks"] = int(m.group(2))
        m = re.search(r"\*\* (\d+) of (\d+) cover properties satisfied", raw)
        if m:
            rec["cover_sat"] = int(m.group(1))
            rec["cover_total"] = int(m.group(2))
        # failed checks: "Failed Checks: <desc>\n File: "<file>", line N, in <fn>"
        for fm in re.finditer(r"Failed Checks: (.*)\n\s*File: \"([^\"]*)\", line (\d+), in (\S+)", raw):
            rec["failed_checks"].append({"desc": fm.group(1).strip(), "file": fm.group(2),
                                         "line": int(fm.group(3)), "fn": fm.group(4)})
        for fm in re.finditer(r"Failed Checks: (.*)\n(?!\s*File:)", raw):
            rec["failed_checks"].append({"desc": fm.group(1).strip(), "file": "", "line": 0, "fn": ""})
        res[cur] = rec

    for line in text.splitlines():
        m = HARNESS_RE.match(line.strip())
        if m:
            close()
            cur = m.group(1)
            buf = []
        elif cur is not None:
            if line.startswith("Manual Harness Summary") or line.startswith("Complete - "):
                close()
                cur = None
                buf = []
            else:
                buf.append(line)
    close()
    return res


def run_kani(src, harnesses, log, harness_timeout=300, extra=None, overall_timeout=None,
             jobs=None, unwind=None, thorough=False):
    """Run `cargo kani` on the snapshot for the given fully-qualified harness names."""
    cmd = ["cargo", "kani", "-p", "svgbob", "--lib", "--target-dir", kani_target_dir(),
           "-Z", "stubbing", "-Z", "function-contracts", "-Z", "unstable-options",
           "--output-format", "terse", "--exact",
           "--harness-timeout", "%ds" % harness_timeout, "-j", str(jobs or JOBS)]
    if unwind:
        cmd += ["--default-unwind", str(unwind)]
    if extra:
        cmd += extra
    for h in harnesses:
        cmd += ["--harness", h]
    # never trust cached artifacts of the crate under verification (dependencies stay cached)
    env = {"VERIF_THOROUGH": "1"} if thorough else None
    if not thorough:
        ENV.pop("VERIF_THOROUGH", None)
    with target_lock(kani_target_dir()):
        import glob
        for fp in glob.glob(os.path.join(kani_target_dir(), "kani", "*", "debug", "build", "svgbob")) + \
                glob.glob(os.path.join(kani_target_dir(), "kani", "*", "debug", ".fingerprint", "svgbob-*")):
            shutil.rmtree(fp, ignore_errors=True)
        rc, text, wall = run(cmd, cwd=src, timeout=overall_timeout, out=log, env=env)
    reap_orphan_solvers()
    recs = parse_kani_output(text)
    return rc, text, wall, recs


def reap_orphan_solvers():
    """Kani kills cbmc on a harness timeout but not the external SMT/SAT solver it spawned (cvc5, kissat):
    the orphan (re-parented to init) keeps a core busy for hours.  Kill solver processes whose parent is 1."""
    try:
        out = subprocess.run(["ps", "-eo", "pid=,ppid=,args="], stdout=subprocess.PIPE).stdout.decode()
        for line in out.splitlines():
            parts = line.split(None, 2)
            if len(parts) == 3 and parts[1] == "1" and (parts[2].startswith("cvc5 --lang smtlib") or parts[2].startswith("kissat ")):
                try:
                    os.kill(int(parts[0]), 9)
                except OSError:
                    pass
    except Exception:
        pass


def compile_error_summary(text):
    errs = re.findall(r"^error(?:\[E\d+\])?: .*(?:\n\s+--> .*)?", text, re.M)
    return errs[:20]


# ---------------------------------------------------------------------------------------------
# evidence
# ---------------------------------------------------------------------------------------------

def write_evidence(prop, data):
    d = os.environ.get("VERIF_EVIDENCE_DIR") or os.path.join(VERIF, "evidence")
    os.makedirs(d, exist_ok=True)
    path = os.path.join(d, prop + ".json")
    tmp = path + ".tmp"
    with open(tmp, "w") as f:
        json.dump(data, f, indent=1, sort_keys=False)
        f.write("\n")
    os.replace(tmp, path)
    return path


def scan_unsafe(src):
    """Scan the crate source for constructs that would invalidate the frame-by-typing argument."""
    pats = {"unsafe": r"\bunsafe\b", "static mut": r"\bstatic\s+mut\b", "RefCell": r"\bRefCell\b",
            "UnsafeCell": r"\bUnsafeCell\b", "Atomic": r"\bAtomic[A-Z]\w*\b", "Mutex": r"\bMutex\b",
            "std::cell::Cell": r"\bcell::Cell\b"}
    hits = []
    root = os.path.join(src, CRATE_SRC)
    for r, _d, files in os.walk(root):
        for f in files:
            if not f.endswith(".rs"):
                continue
            p = os.path.join(r, f)
            with open(p, encoding="utf-8") as fh:
                for n, line in enumerate(fh, 1):
                    code = line.split("//")[0]
                    for name, pat in pats.items():
                        if re.search(pat, code):
                            hits.append("%s:%d:%s" % (os.path.relpath(p, src), n, name))
    return hits
