#!/bin/bash
# usage: tools/try_seed.sh <patch> <prop> [<prop>...]   - applies the patch to /repo, runs the checks, restores /repo
PATCH=$1; shift
cd /verif
if [ -n "$(git -C /repo status --porcelain)" ]; then echo "/repo not clean"; exit 9; fi
git -C /repo apply "$PATCH" || { echo "patch does not apply"; exit 9; }
for P in "$@"; do
  echo "--- $P"
  ./check $P "${CHECK_ARGS[@]}" 2>&1 | grep -E "^(VIOLATION|FAILED|UNDECIDED|KNOWN-FINDING|property=)" | cut -c1-400
  echo "exit=${PIPESTATUS[0]}"
done
git -C /repo checkout -- .
git -C /repo status --porcelain
