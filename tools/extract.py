"""Mechanical extraction of real svgbob functions into a single Verus file (DESIGN.md 2.1).

For every unit (tools/verus_units.py) the functions are located in the *snapshot of /repo's working
tree* by name, their text is copied verbatim by bracket matching, and only these syntactic edits
are applied, all recorded in the evidence:
  T1  `Self` -> `T`, `Self::f(` -> `f::<T>(`   (trait default methods hoisted to generic free fns)
  T2  the signature line is replaced by the one in the unit description (the original signature
      must match the unit's `sig_re`, otherwise the anchor is lost -> undecided)
  T3  requires / ensures / decreases inserted after the signature; loop annotations inserted by
      loop ordinal (`for x in e {` -> `for x in it: e invariant .. {`)
  T4  callees that are not extracted are declared `#[verifier::external_body]` in the prelude
What is dropped: doc comments and attributes in front of the item; everything not named.
"""
import os
import re
import subprocess
import time

import vlib
import verus_units


class LostAnchor(Exception):
    pass


def lex_skip(text, i):
    """If a comment / string / char literal starts at i, return the index after it, else i."""
    c = text[i]
    if text.startswith("//", i):
        j = text.find("\n", i)
        return len(text) if j < 0 else j
    if text.startswith("/*", i):
        depth, j = 1, i + 2
        while j < len(text) and depth:
            if text.startswith("/*", j):
                depth += 1
                j += 2
            elif text.startswith("*/", j):
                depth -= 1
                j += 2
            else:
                j += 1
        return j
    if c == '"':
        j = i + 1
        while j < len(text):
            if text[j] == "\\":
                j += 2
            elif text[j] == '"':
                return j + 1
            else:
                j += 1
        return j
    if c == "r" and re.match(r'r#*"', text[i:]):
        m = re.match(r'r(#*)"', text[i:])
        end = '"' + m.group(1)
        j = text.find(end, i + len(m.group(0)))
        return len(text) if j < 0 else j + len(end)
    if c == "'":
        m = re.match(r"'(\\.[^']*|[^'\\])'", text[i:])
        if m:
            return i + len(m.group(0))
        return i   # a lifetime
    return i


def match_brace(text, i):
    """text[i] == '{' ; return index just after the matching '}'"""
    assert text[i] == "{"
    depth = 0
    j = i
    while j < len(text):
        k = lex_skip(text, j)
        if k != j:
            j = k
            continue
        if text[j] == "{":
            depth += 1
        elif text[j] == "}":
            depth -= 1
            if depth == 0:
                return j + 1
        j += 1
    raise LostAnchor("unbalanced braces")


def find_fn(text, name, within=None):
    """Return (sig_start, body_start, body_end) of `fn name` (optionally inside `within` item)."""
    lo, hi = 0, len(text)
    if within:
        m = re.search(within, text)
        if not m:
            raise LostAnchor("container %r not found" % within)
        b = text.find("{", m.end() - 1)
        lo, hi = b, match_brace(text, b)
    pat = re.compile(r"\bfn\s+%s\b" % re.escape(name))
    pos = lo
    while True:
        m = pat.search(text, pos, hi)
        if not m:
            raise LostAnchor("fn %s not found" % name)
        # make sure the match is not inside a comment/string: cheap check on the line
        line_start = text.rfind("\n", 0, m.start()) + 1
        if "//" in text[line_start:m.start()]:
            pos = m.end()
            continue
        break
    # include visibility qualifiers in front of `fn`
    s = m.start()
    pre = text[line_start:s]
    if re.fullmatch(r"\s*(pub(\([^)]*\))?\s+)?(const\s+)?", pre):
        s = line_start + (len(pre) - len(pre.lstrip()))
    # body start: first '{' at paren depth 0 after the name
    j = m.end()
    depth = 0
    while j < hi:
        k = lex_skip(text, j)
        if k != j:
            j = k
            continue
        ch = text[j]
        if ch in "([":
            depth += 1
        elif ch in ")]":
            depth -= 1
        elif ch == "{" and depth == 0:
            break
        elif ch == ";" and depth == 0:
            raise LostAnchor("fn %s has no body" % name)
        j += 1
    return s, j, match_brace(text, j)


def loop_positions(body):
    """Indices of `for`/`while`/`loop` keywords in body, in order, lexer-aware."""
    res = []
    j = 0
    while j < len(body):
        k = lex_skip(body, j)
        if k != j:
            j = k
            continue
        m = re.match(r"\b(for|while|loop)\b", body[j:])
        if m and (j == 0 or not (body[j - 1].isalnum() or body[j - 1] == "_")):
            res.append((j, m.group(1)))
            j += len(m.group(1))
            continue
        j += 1
    return res


def annotate_loops(body, loops):
    """Insert loop annotations (dict ordinal -> {'iter': name or None, 'clauses': text})."""
    if not loops:
        return body, []
    edits = []
    pos = loop_positions(body)
    # apply from the last to the first so that indices stay valid
    for ordinal in sorted(loops.keys(), reverse=True):
        if ordinal >= len(pos):
            raise LostAnchor("loop #%d not found" % ordinal)
        start, kw = pos[ordinal]
        ann = loops[ordinal]
        # opening brace of the loop body: first '{' at depth 0 after the header
        j = start + len(kw)
        depth = 0
        while j < len(body):
            k = lex_skip(body, j)
            if k != j:
                j = k
                continue
            ch = body[j]
            if ch in "([":
                depth += 1
            elif ch in ")]":
                depth -= 1
            elif ch == "{" and depth == 0:
                break
            j += 1
        brace = j
        header = body[start:brace]
        new_header = header
        if kw == "for" and ann.get("iter"):
            m = re.match(r"(for\s+.*?\s+in\s+)(.*)$", header, re.S)
            if not m:
                raise LostAnchor("for-loop header not understood")
            new_header = m.group(1) + ann["iter"] + ": " + m.group(2)
        new_header = new_header.rstrip() + "\n" + ann["clauses"].rstrip() + "\n"
        body = body[:start] + new_header + body[brace:]
        edits.append({"loop": ordinal, "keyword": kw, "inserted": ann["clauses"].strip(),
                      "iterator_named": ann.get("iter")})
    return body, edits


def build_unit(unit_name, src):
    unit = verus_units.UNITS[unit_name]
    out = ["// GENERATED by /verif/tools/extract.py from /repo's working tree - do not edit",
           "use vstd::prelude::*;", "verus! {", unit.get("prelude", "")]
    report = {"functions": [], "edits": [], "assumes": list(unit.get("assumes", []))}
    line_map = []   # (first_line, last_line, fn name)
    for f in unit["functions"]:
        path = os.path.join(src, vlib.CRATE_SRC, f["file"])
        if not os.path.exists(path):
            raise LostAnchor("file %s not found" % f["file"])
        text = open(path, encoding="utf-8").read()
        s, b, e = find_fn(text, f["name"], f.get("within"))
        sig = " ".join(text[s:b].split())
        if not re.search(f["sig_re"], sig):
            raise LostAnchor("signature of %s changed: %r does not match %r" % (f["name"], sig, f["sig_re"]))
        body = text[b:e]
        orig_body = body
        edits = []
        for pat, rep in f.get("subst", []):
            body, n = re.subn(pat, rep, body)
            edits.append({"subst": pat, "by": rep, "count": n})
        body, ledits = annotate_loops(body, f.get("loops"))
        edits += ledits
        piece = f["header"].rstrip() + "\n" + f.get("spec", "").rstrip() + "\n" + body + "\n"
        first = sum(x.count("\n") for x in out) + len(out) + 1
        out.append(piece)
        last = first + piece.count("\n")
        line_map.append((first, last, f["name"]))
        report["functions"].append({"name": f["name"], "file": vlib.CRATE_SRC + "/" + f["file"],
                                    "original_signature": sig, "emitted_signature": " ".join(f["header"].split()),
                                    "body_sha256": __import__("hashlib").sha256(orig_body.encode()).hexdigest(),
                                    "spec": " ".join(f.get("spec", "").split()), "edits": edits})
    out.append(unit.get("epilogue", ""))
    out.append("} // verus!\nfn main() {}\n")
    return "\n".join(out), report, line_map


def run_unit(unit_name, src, logdir):
    t0 = time.time()
    res = {"state": "undecided", "errors": [], "assumes": [], "functions": []}
    try:
        text, report, line_map = build_unit(unit_name, src)
    except LostAnchor as ex:
        res["reason"] = "lost anchor: %s" % ex
        return res
    res["assumes"] = report["assumes"]
    res["functions"] = report["functions"]
    # verify a private copy (parallel checks must not overwrite each other's file), then publish it as evidence
    os.makedirs(logdir, exist_ok=True)
    path = os.path.join(logdir, unit_name + ".rs")
    with open(path, "w") as f:
        f.write(text)
    rc, out, wall = vlib.run(["verus", path, "--time", "--rlimit", "60"], cwd=logdir, timeout=600,
                             out=os.path.join(logdir, "verus-%s.log" % unit_name))
    outdir = os.path.join(vlib.VERIF, "evidence", "extracted")
    os.makedirs(outdir, exist_ok=True)
    tmp = os.path.join(outdir, ".%s.%d.tmp" % (unit_name, os.getpid()))
    with open(tmp, "w") as f:
        f.write(text)
    os.replace(tmp, os.path.join(outdir, unit_name + ".rs"))
    res["time_s"] = round(wall, 2)
    res["raw"] = out
    m = re.search(r"verification results:: (\d+) verified, (\d+) errors", out)
    if rc == 124 or not m:
        res["reason"] = "verus gave no verdict (rc=%s): %s" % (rc, out[-400:])
        return res
    res["verified"] = int(m.group(1))
    res["n_errors"] = int(m.group(2))
    expected = verus_units.UNITS[unit_name].get("min_verified", 1)
    if res["verified"] + res["n_errors"] < expected:
        res["reason"] = "vacuity guard: only %d items checked, expected >= %d" % (
            res["verified"] + res["n_errors"], expected)
        return res
    # verification errors (not syntax / type errors)
    verr = []
    hard = []
    for em in re.finditer(r"^error(?:\[E\d+\])?: ([^\n]*)\n\s*--> ([^\n:]+):(\d+):", out, re.M):
        msg, line = em.group(1), int(em.group(3))
        fn = ""
        for a, b, name in line_map:
            if a <= line <= b:
                fn = name
        kind_verif = any(k in msg for k in ("postcondition not satisfied", "invariant not satisfied",
                                            "could not prove termination", "assertion failed",
                                            "precondition not satisfied", "decreases not satisfied",
                                            "possible arithmetic underflow/overflow", "possible division by zero",
                                            "recommendation not met", "index out of bounds"))
        (verr if kind_verif else hard).append({"msg": msg, "line": line, "fn": fn})
    if "rlimit" in out and "exceeded" in out:
        res["reason"] = "resource limit exceeded"
        return res
    if hard and not verr:
        res["reason"] = "verus rejected the extracted text (unsupported construct?): " + "; ".join(
            h["msg"] for h in hard)[:400]
        return res
    res["state"] = "decided"
    res["errors"] = verr
    return res
