"""Registry of obligations.  One record per obligation; a property is decided by all records that
list it in `props`.  Engines: kani (full-domain unless kind says bounded), verus (unbounded),
bounded (native stand-in, never counted as proved), scan (syntactic guard).
"""
import os
import re

SRC = "crates/svgbob/src/"

TRUSTED_BASE = [
    "Kani 0.68.0 / CBMC 6.11.0 / CaDiCaL (bit-precise f32, i32, char)",
    "Verus 0.2026.09.13 / Z3 (unbounded, extracted functions; extraction transformations T1-T4 of DESIGN.md 2.1)",
    "rustc / std / alloc as modelled by Kani",
    "dependencies as documented: nalgebra, parry2d, sauron, pom, unicode-width, itertools, once_cell, indexmap",
]

COMMON_ASSUMPTIONS = [
    "coordinates: cells in [0, 2^17)^2, lattice points i/4 with i < 2^20; scale in [2^-10, 2^10] (DESIGN.md 2.3)",
    "map / iterator glue between contracted functions passes values through unchanged (BTreeMap, HashMap, "
    "iterator adapters, once_cell tables are not verified)",
    "std, nalgebra, parry2d, sauron, pom, unicode-width, itertools behave as documented for the arguments svgbob passes",
    "no end-to-end theorem about to_svg: the property is decided on the contracts of the functions that carry it",
]

PROPERTIES = {}
OBLIGATIONS = []


def prop(pid, explanation, assumptions=()):
    PROPERTIES[pid] = {"explanation": explanation, "assumptions": list(assumptions)}


def mod_prefix(mod):
    if mod == "lib.rs":
        return "__verif"
    return mod[:-3].replace("/", "::") + "::__verif"


def K(name, props, mod, h, function, contract, file=None, kind="full-domain", kmod="k", **kw):
    o = {"name": name, "props": props, "engine": "kani", "harness": mod_prefix(mod) + "::" + kmod + "::" + h,
         "function": function, "file": SRC + (file or mod), "contract": contract, "kind": kind}
    o.update(kw)
    OBLIGATIONS.append(o)
    return o


def B(name, props, mod, test, function, contract, bound, file=None, **kw):
    o = {"name": name, "props": props, "engine": "bounded", "test": mod_prefix(mod) + "::b::" + test,
         "function": function, "file": SRC + (file or mod), "contract": contract, "bound": bound,
         "kind": "bounded"}
    o.update(kw)
    OBLIGATIONS.append(o)
    return o


def V(name, props, unit, fn, function, contract, file, **kw):
    o = {"name": name, "props": props, "engine": "verus", "unit": unit, "fn": fn, "function": function,
         "file": SRC + file, "contract": contract, "kind": "unbounded"}
    o.update(kw)
    OBLIGATIONS.append(o)
    return o


def S(name, props, scan, function, contract, file, **kw):
    o = {"name": name, "props": props, "engine": "scan", "scan": scan, "function": function,
         "file": SRC + file, "contract": contract, "kind": "scan"}
    o.update(kw)
    OBLIGATIONS.append(o)
    return o


# ------------------------------------------------------------------------------------------------
# scans
# ------------------------------------------------------------------------------------------------

def run_scan(o, src):
    rec = {"name": o["name"], "function": o["function"], "file": o["file"], "engine": "scan",
           "kind": "scan", "contract": o["contract"], "state": "undecided", "assumes": []}
    fn = SCANS[o["scan"]]
    try:
        ok, detail = fn(src, o)
    except Exception as e:      # a scan that cannot run is undecided, never a violation
        rec["reason"] = "scan error: %r" % (e,)
        return rec
    rec["state"] = "discharged" if ok else "undecided"
    rec["reason"] = detail
    return rec


SCANS = {}

TEXT = "buffer/fragment_buffer/fragment/text.rs"

# ------------------------------------------------------------------------------------------------
# C02 / C08 : sinks
# ------------------------------------------------------------------------------------------------
prop("C02", "Each sink through which input characters reach the output has an escaping contract "
            "over the whole Unicode scalar range; the root element has a contract on tag and attributes.",
     ["sauron-core 0.61.9 renders Leaf::Text and attribute values verbatim and closes every element it opens",
      "f32 Display prints only [0-9.e-] for finite values"])
prop("C08", "Same sink contracts as C02, read as: no markup-significant character leaves a sink unescaped; "
            "identifier character classes exclude markup-significant characters for every char.",
     ["sauron-core 0.61.9 renders Leaf::Text and attribute values verbatim"])

prop("C01", "One obligation per panic site reachable from the entry points (precondition / guard), termination of the two "
            "recursive fix-points, totality of the float comparisons; see DESIGN.md C01.",
     ["no panic inside parry2d, nalgebra, sauron, pom, unicode-width, itertools, std for the arguments svgbob passes",
      "polynomial time bound and stack depth are not decided by this family (termination and linear recursion depth are)"])
prop("C03", "Stroke preservation of everything after the per-character tables: Line::merge (hull, broken flag), endorse_rect "
            "(exact four sides), Fragment::merge dispatch, CellText never becomes geometry; table rows bounded.",
     ["PropertyBuffer / FragmentBuffer hand every cell its actual eight neighbours and keep all fragments (map glue)"])
prop("C04", "CellText well-formedness (cells <-> characters over display columns) through new / merge / absolute_position / -> Text.",
     ["Span / Contacts / Endorse plumbing neither drops nor duplicates a CellText"])
prop("C05", "Soundness of is_rect / endorse_rect / is_rounded_rect as post-conditions over 4 (8) symbolic fragments; "
            "completeness for the canonical 4-line box.",
     ["characters of every box style produce the four (eight) fragments (table rows)", "contact grouping puts exactly them into one Contacts"])
prop("C06", "Every absolute_position / localize is an exact translation; every geometric predicate svgbob implements is "
            "translation invariant on the lattice.",
     ["parry2d Segment::contains_point decides exact on-segment membership for lattice arguments",
      "the catalogue match depends only on the localized span"])
prop("C09", "Line::merge contract, is_collinear / is_touching contracts, merge_recursive fix-point and termination.",
     ["all fragments of a span reach one merge_recursive call; lines are emitted once each"])
prop("C10", "Adjacency lemma, span-merge contract, partition invariant of the generic merge.",
     ["Span::endorse and everything below read only the span and the immutable tables (by typing)"])
prop("C11", "Whole-struct post-condition of every scale method: each length field = field x s (IEEE product), every other field "
            "unchanged; get_size formula.",
     ["fl(v*fl(s*f)) vs f*fl(v*s): IEEE rounding (within 2 ulp), the statement's 'multiplies by f' is read up to that rounding",
      "products of |v| <= 2^24 and s <= 2^10 are finite (magnitude argument, not machine-checked)"])
prop("C12", "Canvas formula, margin lemma, bounds of every shape enclose its points.",
     ["table behaviours only reference neighbour-cell points when that neighbour is occupied"])
prop("C13", "CircleArt radius / centre / extent contracts for all widths; is_subset_of; catalogue rows exhaustively.", [])
prop("C14", "merge_circle, Arc constructors' normalisation, polygon tag tables, marker rendering.", ["hand-written polygon / arc table rows only bounded"])
prop("C15", "escape_line contract (bounded: pom grammar is outside both verifiers); quoted text never enters the cell map.", [])
prop("C16", "legend / tag grammars bounded; enclose_deep_first innermost-enclosing contract; legend_css format.", [])
prop("C17", "blank / NUL filter over all chars; legend grammar under CRLF bounded; str::lines assumed.", ["str::lines strips \\n and \\r\\n (std)"])
prop("C18", "fragments_to_node child list over the 8 switch combinations; size override frame condition; entry point equalities.",
     ["compressed vs pretty rendering differ only by indentation (sauron)"])

K("text.replace_html_char", ["C02", "C08"], TEXT, "check_replace_html_char", "replace_html_char",
  "for every char c: entity if c in {<,>,&,',\"}; empty iff XML 1.0 cannot represent c; else exactly c")
K("text.canary", ["C02", "C08"], TEXT, "canary_replace_html_char_identity", "replace_html_char",
  "deliberately false: replace_html_char is the identity", canary=True, cover=False)

# ------------------------------------------------------------------------------------------------
# shared obligations (DESIGN.md section 3)
# ------------------------------------------------------------------------------------------------
UTIL = "util.rs"
POINT = "point.rs"
CELL = "buffer/cell_buffer/cell.rs"
GRID = "buffer/cell_buffer/cell/cell_grid.rs"

K("O1.ord", ["C01"], UTIL, "check_ord", "util::ord", "non-NaN => equals partial_cmp, never reaches unreachable!")
K("O1.opt_ord", ["C01"], UTIL, "check_opt_ord", "util::opt_ord", "None < Some; Some/Some as ord")
K("O1.point_cmp", ["C01", "C09"], POINT, "check_point_cmp", "Point::cmp / eq / partial_cmp",
  "row-major (y, x) order on non-NaN points; == is coordinate equality")
K("util.pad", ["C01"], UTIL, "check_pad", "util::pad", "rounds away from zero to an integer, total on finite input")
K("C08.ident_classes", ["C08", "C16"], UTIL, "check_ident_char_classes",
  "parser::alpha_or_underscore / alphanum_or_underscore",
  "for every char: accepted => not markup-significant/whitespace/=,/ and an XML char; ASCII letters, digits, _ accepted")
K("G1.cellgrid_point", ["C06", "C11"], GRID, "check_cellgrid_point", "CellGrid::point / unit_x / unit_y / width / height",
  "= (x/4, y/4) exactly; cell is 1 x 2")
K("G1.cellgrid_names", ["C06"], GRID, "check_cellgrid_names", "CellGrid::a..y / diagonal_length", "named lattice points; diagonal = sqrt 5")
K("G2.cell_corners", ["C06", "C11", "C12"], CELL, "check_cell_corners", "Cell::top_left_most / bottom_right_most / width / height",
  "= (x, 2y), (x+1, 2y+2), lattice")
K("G3.cell_absolute_position", ["C06"], CELL, "check_cell_absolute_position", "Cell::absolute_position / localize_point",
  "exact translation by (x,2y); localize_point is its inverse; abs(c+d) = abs(c)+d")
K("G3.point_add_sub", ["C06"], POINT, "check_point_add_sub", "Point::add / sub", "exact on the lattice, inverse of each other")
K("G4.cell_adjacent", ["C10", "C09"], CELL, "check_cell_adjacent", "Cell::is_adjacent", "Chebyshev distance <= 1, symmetric; a gap of one cell separates")
K("G4.cell_localize_bounds", ["C06", "C10", "C12"], CELL, "check_cell_localize_bounds",
  "Cell::localize_cell / Add / Sub / rearrange_bound / is_bounded / cmp", "subtract / inverse / per-axis min-max / inclusive box / row-major order")
K("G4.cell_neighbours", ["C03"], CELL, "check_cell_neighbours", "Cell::top_left..bottom_right", "the eight neighbour offsets")
K("G2.cell_named_points", ["C06", "C03"], CELL, "check_cell_named_points", "Cell::a..y / unit", "origin + k/4 per axis")
K("C11.point_scale", ["C11"], POINT, "check_point_scale", "Point::scale", "both coordinates = IEEE product with s; finite")

LINE = "buffer/fragment_buffer/fragment/line.rs"
K("L1.line_new", ["C03", "C09"], LINE, "check_line_new", "Line::new / new_noswap / sort_reorder_end_points",
  "same two end points, ordered start <= end, flag kept")
K("C11.line_scale", ["C11"], LINE, "check_line_scale", "Line::scale", "4 coordinates = IEEE product with s; is_broken unchanged")
K("C06.line_absolute_position", ["C06"], LINE, "check_line_absolute_position", "Line::absolute_position / localize",
  "exact translation by the cell origin; localize is the inverse")
K("C06.line_predicates", ["C06"], LINE, "check_line_predicates_translation_invariant",
  "Line::is_horizontal/is_vertical/is_aabb_parallel/is_aabb_perpendicular/octant/slope/has_endpoint",
  "p(translate(l, d)) = p(l) for lattice lines and cell offsets (quick: < 16 cells, thorough: < 64 cells)", timeout=300, timeout_thorough=1800)
K("C06.line_slope", ["C06"], LINE, "check_line_slope_translation_invariant", "Line::slope",
  "Line::slope (the real function) is bit-identical after a translation by whole cells on the 16-cell lattice, in both tiers (so angle and heading are)",
  timeout=600, timeout_thorough=1800)
K("C06.line_octant", ["C06"], LINE, "check_line_octant_slope_translation_invariant", "Line::octant",
  "translation invariant on the lattice (quick: < 16 cells, thorough: < 64 cells)", timeout=300, timeout_thorough=1800)
K("C01.line_heading_total", ["C01", "C14"], LINE, "check_line_heading_total", "Line::line_angle / heading / Direction::threshold_length",
  "for every f32 returned by angle_rad: line_angle in the closed set, heading never reaches unreachable!",
  assumes=["Line::angle_rad stubbed by any f32 (f32::atan is a foreign function for Kani)"])
K("LM.line_merge", ["C03", "C09"], LINE, "check_line_merge", "Line::merge / can_merge",
  "Some(hull = min start..max end, broken = either) iff is_touching and both is_collinear hold, None otherwise; all finite coordinates",
  assumes=["Line::is_touching / util::is_collinear replaced by opaque fixed results (their meaning on the lattice: S1, S2)"])
K("C14.line_merge_circle", ["C14", "C01"], LINE, "check_line_merge_circle", "Line::merge_circle",
  "never panics; Some(marker line: kind by filled/radius, marked end = centre, far end kept) iff radius <= 0.75 and an end within 0.75*threshold",
  timeout=600, assumes=["Line::angle_rad stubbed by any f32"])
K("N4.line_bounds", ["C12", "C10", "C16"], LINE, "check_line_bounds", "Line::bounds", "per-axis min / max of the end points")

ARC = "buffer/fragment_buffer/fragment/arc.rs"
CIRCLE = "buffer/fragment_buffer/fragment/circle.rs"
RECT = "buffer/fragment_buffer/fragment/rect.rs"
K("C11.arc_scale", ["C11"], ARC, "check_arc_scale", "Arc::scale", "start, end, radius = IEEE product with s; major/sweep/rotation flags unchanged")
K("C14.arc_ctors", ["C14", "C05"], ARC, "check_arc_ctors", "Arc::new / major / new_with_sweep / sort_reorder_end_points / arcs_to",
  "end points ordered; sweep flipped exactly when swapped; Arc::new(a,b,r) = new_with_sweep(b,a,r,true)")
K("C05.is_aabb_right_angle_arc", ["C01", "C05"], ARC, "check_is_aabb_right_angle_arc", "Arc::is_aabb_right_angle_arc (Arc::center stubbed: any point, NaN included)",
  "never panics, whatever the arc and its centre (NaN when the chord exceeds the diameter); true exactly when the centre is axis-aligned with both end points")
K("C06.arc_absolute_position", ["C06"], ARC, "check_arc_absolute_position", "Arc::absolute_position",
  "end points translated exactly, radius and flags unchanged, end point order preserved")
K("C05.arc_touching", ["C05", "C12"], ARC, "check_arc_touching", "Arc::is_touching / has_endpoint / bounds", "equalities of end points; bounds = box of the chord")
K("C11.circle_scale", ["C11"], CIRCLE, "check_circle_scale", "Circle::scale", "centre and radius = IEEE product with s; is_filled unchanged")
K("C06.circle_absolute_position", ["C06", "C13"], CIRCLE, "check_circle_absolute_position", "Circle::absolute_position / new",
  "centre translated exactly; radius, fill unchanged")
K("N4.circle_bounds", ["C12", "C10", "C16"], CIRCLE, "check_circle_bounds", "Circle::bounds", "centre -/+ radius")
K("C11.rect_scale", ["C11"], RECT, "check_rect_scale", "Rect::scale", "corners and Some(radius) = IEEE product with s; None stays None; flags unchanged")
K("L1.rect_ctors", ["C05"], RECT, "check_rect_ctors", "Rect::new / rounded_new / sort_reorder_end_points / width / height / is_rounded",
  "same two corners ordered; radius as given; flags kept")
K("C06.rect_absolute_position", ["C06"], RECT, "check_rect_absolute_position", "Rect::absolute_position", "corners translated exactly; rest unchanged")
K("N4.rect_bounds", ["C12", "C10", "C16"], RECT, "check_rect_bounds", "Rect::bounds", "box of the corners")

MLINE = "buffer/fragment_buffer/fragment/marker_line.rs"
POLY = "buffer/fragment_buffer/fragment/polygon.rs"
K("C11.marker_line_scale", ["C11"], MLINE, "check_marker_line_scale", "MarkerLine::scale", "line scaled; is_broken and both markers unchanged")
K("C06.marker_line_absolute_position", ["C06", "C14"], MLINE, "check_marker_line_absolute_position", "MarkerLine::absolute_position / new / bounds",
  "line translated exactly, end points never swapped (marked end stays marked), markers unchanged")
for _n in (3, 4):
    K("C11.polygon_scale%d" % _n, ["C11"], POLY, "check_polygon_scale%d" % _n, "Polygon::scale", "every point = IEEE product with s; count, fill, tags unchanged",
      kind="bounded", bound="polygons with exactly %d points, one tag (the tables only build 3- and 4-point polygons)" % _n, timeout=300)
    K("C06.polygon_absolute_position%d" % _n, ["C06"], POLY, "check_polygon_absolute_position%d" % _n, "Polygon::absolute_position",
      "every point translated exactly; rest unchanged", kind="bounded", bound="polygons with exactly %d points" % _n, timeout=300)
K("C14.polygon_tags", ["C14"], POLY, "check_polygon_tags", "PolygonTag::direction / get_marker / matched_direction; Polygon::get_marker / matched_direction",
  "tag -> direction / marker tables as documented")

ALPHA = "content from a fixed alphabet of 10 strings (ASCII, 2-byte Latin, wide CJK, combining mark, 2-char mixtures)"
K("T1.celltext_new_anchor", ["C04", "C06"], TEXT, "check_celltext_new_and_anchor", "CellText::new / absolute_position / From<CellText> for Text",
  "content and cell kept; text anchored at q = origin + (0.25, 1.5), strictly inside the first character's cell; all valid cells",
  kind="bounded", bound="content fixed to the multi-byte string \"é\" (the functions only move the String); cells symbolic", kmod="k2")
K("C11.text_scale", ["C11"], TEXT, "check_text_scale", "Text::scale", "anchor = IEEE product with s; text unchanged", kind="bounded",
  bound="content fixed to \"é\"; anchor and scale symbolic", kmod="k2")
K("C06.text_absolute_position", ["C06"], TEXT, "check_text_absolute_position", "Text::absolute_position", "anchor translated exactly; text unchanged",
  kind="bounded", bound="content fixed to \"é\"; anchor and cell symbolic", kmod="k2")
B("T2.celltext_columns_all_chars", ["C04"], TEXT, "bounded_celltext_columns_all_chars", "CellText::end_cell (columns) vs StringBuffer::from",
  "for every char: a one-character CellText spans exactly the columns StringBuffer allots to that character",
  "exhaustive over all 1,114,111 chars (single-character strings), natively")
B("T3.celltext_merge", ["C04", "C03"], TEXT, "bounded_celltext_merge", "CellText::can_merge / merge",
  "can_merge <=> same row and consecutive display columns; merge = left content ++ right content at the left start (whole view)",
  ALPHA + " x same/next row x column offsets -7..7 (3000 pairs); Kani: String building exceeds the budget (300 s timeout measured)")
B("T5.celltext_cells", ["C04", "C12"], TEXT, "bounded_celltext_cells", "CellText::cells / end_cell / bounds",
  "consecutive cells, as many as display columns; bounds from the start cell to the end cell", ALPHA + " x 4 columns")

FRAG = "buffer/fragment_buffer/fragment.rs"
for _v in ("line", "marker_line", "circle", "arc", "rect"):
    K("C11.fragment_scale_dispatch_" + _v, ["C11"], FRAG, "check_fragment_scale_dispatch_" + _v, "Fragment::scale (%s)" % _v,
      "same variant; every point and radius = IEEE product with s; flags and markers unchanged", timeout=300)
    K("C06.fragment_absolute_position_dispatch_" + _v, ["C06"], FRAG, "check_fragment_absolute_position_dispatch_" + _v,
      "Fragment::absolute_position (%s)" % _v, "same variant; exact translation; rest unchanged", timeout=300)
K("C03.fragment_merge_dispatch", ["C03", "C09", "C14"], FRAG, "check_fragment_merge_dispatch", "Fragment::merge",
  "(Line,Line) iff Line::merge, result Line; (Line,Circle) iff merge_circle, result MarkerLine; no other geometric pair merges",
  assumes=["Line::merge / Line::merge_circle replaced by opaque results (their contracts: LM.line_merge, C14.line_merge_circle)"], timeout=300)
K("T1.cell_text_all_chars", ["C04", "C03"], FRAG, "check_cell_text_all_chars", "fragment::cell_text",
  "for every char: CellText at local cell (0,0) whose content is exactly that character")
K("A4.fragment_can_fit", ["C10", "C16"], FRAG, "check_fragment_can_fit", "Fragment::can_fit",
  "can_fit <=> the container's bounds() contain the content's bounds() (all four comparisons)",
  assumes=["<Fragment as Bounds>::bounds replaced by opaque results (per-type contracts: N4.*_bounds)"])

CB = "buffer/cell_buffer.rs"
K("N1.get_size", ["C11", "C12"], CB, "check_get_size", "CellBuffer::get_size",
  "w = scale*(last column+2)*1, h = scale*(last row+2)*2 (IEEE products, bit for bit); empty => (0,0) bounds",
  assumes=["CellBuffer::bounds replaced by an opaque result (BTreeMap iteration; its contract N2 is a bounded stand-in)"])
K("N1.get_size_default", ["C11", "C12"], CB, "check_get_size_default_scale", "CellBuffer::get_size",
  "at scale 8: exactly 8*(col+2) x 16*(row+2) for all cells < 2^17; empty => 16 x 32",
  assumes=["CellBuffer::bounds replaced by an opaque result"])
B("C17.blank_filter", ["C17", "C04", "C15", "C12"], CB, "bounded_cell_filter_all_chars", "From<&str> for CellBuffer / From<StringBuffer> for CellBuffer (the real conversion, not a restated predicate)",
  "the row 'x', c, 'y' yields the cell of c (in column 1) iff c is neither NUL nor Unicode white space; 'y' sits after the display columns of c; nothing else is disturbed",
  "exhaustive: every Unicode scalar value except the double quote, LF and CR (1 112 061 rows)")


# ------------------------------------------------------------------------------------------------
# Verus: unbounded fix-points (M1 - M3)
# ------------------------------------------------------------------------------------------------
V("M1.second_pass_merge", ["C01", "C09", "C10", "C04"], "merge", "second_pass_merge", "Merge::second_pass_merge",
  "for every item type and list length: the loop terminates and returns at most as many items as it was given "
  "(invariant new_groups.len() <= items consumed)", "merge.rs")
V("M2.merge_recursive", ["C01", "C09", "C10"], "merge", "merge_recursive", "Merge::merge_recursive",
  "terminates for every list (decreases items.len(): recursion only while the list strictly shrinks, depth <= len); "
  "result no longer than the input", "merge.rs")
V("M.canary", ["C01", "C09", "C10", "C04"], "merge_canary", "second_pass_merge", "Merge::second_pass_merge",
  "deliberately false: second_pass_merge always shrinks the list", "merge.rs", canary=True)
V("M3.second_pass_enclose", ["C01", "C16", "C10"], "enclose", "second_pass_enclose", "FragmentTree::second_pass_enclose",
  "for every list length: terminates, returns at most as many trees as given", "buffer/fragment_buffer/fragment_tree.rs")
V("M3.enclose_recursive", ["C01", "C16", "C10"], "enclose", "enclose_recursive", "FragmentTree::enclose_recursive",
  "terminates for every list (decreases len), recursion depth <= len", "buffer/fragment_buffer/fragment_tree.rs")

END = "buffer/cell_buffer/endorse.rs"
B("RP.parallel_aabb_group", ["C05", "C01"], END, "bounded_parallel_aabb_group", "endorse::parallel_aabb_group",
  "result = greedy matching in lexicographic order over Fragment::is_aabb_parallel; pairs only name lines",
  "all 6561 4-tuples from a pool of 9 fragments (7 lines incl. equal-extent, dashed, diagonal, shifted; a circle; an arc); "
  "Kani: the growing Vec inside the 4x4 loop exhausts memory (46 GB) even with an opaque relation; Verus: enumerate unsupported")
K("FP.fragment_is_aabb_parallel", ["C05", "C01"], END, "check_fragment_is_aabb_parallel", "Fragment::is_aabb_parallel / Line::is_aabb_parallel / is_aabb_perpendicular / as_line / as_arc",
  "only (Line,Line) pairs are parallel; lines: both horizontal with equal x extent or both vertical with equal y extent", timeout=300)
for _m in ("m0", "m1", "m2"):
    K("RS.is_rect_sound_" + _m, ["C05", "C03", "C01"], END, "check_is_rect_sound_" + _m, "endorse::is_rect",
      "never panics on as_line().expect; true => the four fragments are lines and exactly the four sides of their bounding box "
      "(case: parallel_aabb_group returns the perfect matching %s)" % _m,
      timeout=900, timeout_thorough=3600, heavy=True,
      assumes=["parallel_aabb_group replaced by its contract (greedy matching over the real relation: RP + FP), split into its possible results",
               "lattice lines (quick < 64 cells, thorough < 1024)",
               "validity of a contact group's lines: not degenerate, no two coincident (they come out of merge_recursive: M2 + LM)"])
    K("RC.is_rect_complete_" + _m, ["C05", "C03"], END, "check_is_rect_complete_" + _m, "endorse::is_rect",
      "the four sides of any lattice rectangle, in any order and dashing, are recognised (case: matching %s)" % _m,
      timeout=900, timeout_thorough=3600, heavy=True, assumes=["parallel_aabb_group replaced by its contract (RP, FP)"])
K("RS.is_rect_few_pairs", ["C05", "C01"], END, "check_is_rect_sound_few_pairs", "endorse::is_rect",
  "fewer than two parallel pairs, or not exactly four fragments: not a rect, nothing indexed", timeout=600, heavy=True)
K("RC.is_rect_pairing", ["C05"], END, "check_is_rect_complete_pairing", "spec of endorse::parallel_aabb_group on rectangle sides",
  "the four sides of a rectangle, in any order, always pair up into one of the three perfect matchings (so the case split is exhaustive)",
  timeout=600, heavy=True)
K("RS.endorse_rect", ["C05", "C03"], END, "check_endorse_rect", "endorse::endorse_rect",
  "Some(r) <=> is_rect; r = the box whose four sides the lines are; sharp, unfilled, dashed iff any side is",
  timeout=900, timeout_thorough=3600, heavy=True,
  assumes=["is_rect replaced by its contract (RS.is_rect_sound)", "<Fragment as Bounds>::bounds replaced by its contract (N4.line_bounds)"])
B("RB.is_rect_shapes", ["C05", "C03"], END, "bounded_is_rect_shapes", "endorse::endorse_rect / is_rect / parallel_aabb_group (real bodies, no stubs)",
  "every rectangle (any order of the sides, any dashing) is endorsed as exactly that rect; ladders, overhanging and inset variants are not",
  "corner coordinates from {0, 0.5, 1, 2.5, 7}: 100 rectangles x 16 dashings x 24 orders + 4 non-rectangle variants x 2 overhangs x 24 orders")

# ------------------------------------------------------------------------------------------------
# C18: entry points (Verus, callees uninterpreted) + child list (bounded: sauron is beyond Kani)
# ------------------------------------------------------------------------------------------------
V("C18.get_node_with_size", ["C18", "C12"], "entry_points", "get_node_with_size", "CellBuffer::get_node_with_size",
  "returns (document(cb, settings, w, h), w, h) with (w, h) = get_size(settings): the canvas size is the only thing taken from get_size",
  "buffer/cell_buffer.rs")
V("C18.get_node_override_size", ["C18"], "entry_points", "get_node_override_size", "CellBuffer::get_node_override_size",
  "returns document(cb, settings, w, h) for the given (w, h): the same document function as get_node_with_size, only (w, h) differ "
  "(an overridden size changes nothing else)", "buffer/cell_buffer.rs")
V("C18.get_node", ["C18"], "entry_points", "get_node", "CellBuffer::get_node",
  "= get_node_with_size(default settings).0", "buffer/cell_buffer.rs")
V("C18.to_svg", ["C18"], "lib_entry", "to_svg", "svgbob::to_svg",
  "= pretty rendering of the default-settings node of CellBuffer::from(ascii): the same value as to_svg_string_pretty", "lib.rs")
V("C18.to_svg_string_pretty", ["C18"], "lib_entry", "to_svg_string_pretty", "svgbob::to_svg_string_pretty",
  "= Node::render (pretty) of get_node() of CellBuffer::from(ascii)", "lib.rs")
V("C18.to_svg_string_compressed", ["C18"], "lib_entry", "to_svg_string_compressed", "svgbob::to_svg_string_compressed",
  "= Node::render_to_string of the same node as the pretty printer", "lib.rs")
V("C18.to_svg_with_settings", ["C18"], "lib_entry", "to_svg_with_settings", "svgbob::to_svg_with_settings",
  "= pretty rendering of get_node_with_size(settings).0 of CellBuffer::from(ascii)", "lib.rs")
V("C18.to_svg_with_override_size", ["C18"], "lib_entry", "to_svg_with_override_size", "svgbob::to_svg_with_override_size",
  "= pretty rendering of get_node_override_size(settings, w, h) of CellBuffer::from(ascii)", "lib.rs")
V("C18.canary", ["C18"], "merge_canary", "second_pass_merge", "Merge::second_pass_merge",
  "deliberately false (engine canary)", "merge.rs", canary=True)

B("C18.fragments_to_node_switches", ["C18", "C02", "C08"], CB, "bounded_fragments_to_node_switches", "CellBuffer::fragments_to_node (real style / defs / FragmentTree)",
  "root = svg[xmlns, width=w, height=h, class=svgbob]; children = [style]? [defs]? [rect.backdrop 0,0,w,h]? ++ fragment nodes; "
  "geometry identical whatever the switches",
  "8 switch combinations x 4 canvas sizes x 0..2 line fragments x settings strings x {no legend, a legend rule} (sauron Node construction exceeds Kani: > 25 min even for concrete inputs)")
B("sink.style_text", ["C02", "C08"], CB, "bounded_style_sink", "CellBuffer::style",
  "the style element has exactly one text child; no raw '<'; every '&' starts one of the five entities; only XML chars; un-escaping returns the payload",
  "payloads of length <= 3 (thorough 4) over {<,&,>,],a,;,LF,U+0001,U+FFFE,\",'} in 3 channels: legend css, font family, stroke colour")
B("C16.legend_css_format", ["C16"], CB, "bounded_legend_css_format", "CellBuffer::legend_css / add_css_styles",
  "'.svgbob .name{ decl }' per entry (also when a name repeats), in order, joined by newlines", "0..4 entries x 3 names x 4 declarations, every second list with a repeated name")
B("C15.escape_line", ["C15", "C01", "C04", "C13", "C12"], CB, "bounded_escape_line", "CellBuffer::escape_line (on top of parser::line_parse)",
  "never panics; quoted segments found as '\"'..next '\"'; text stored verbatim (without fillers) at the opening quote's cell; "
  "the segment's columns, quotes included, blanked; everything else untouched",
  "all column-expanded rows of <= 6 tokens (thorough 7) over {\", a, |, space, e-acute, wide CJK + NUL filler, combining acute U+0301, TAB} (no backslash)")

CM = "map/circle_map.rs"
K("Q1.circle_art_geometry", ["C13", "C12"], CM, "check_circle_art_geometry", "CircleArt::radius / center / edge_increment_x / diameter",
  "for every width 1..128, both edge cases, all half-integer offsets: radius = width/2; extent = [inc, width+inc]; centre.y = 2*offset_y; diameter = width",
  assumes=["CircleArt::width replaced by an opaque integer-valued result (its contract: Q2)"])
K("Q2.circle_art_width", ["C13"], CM, "check_circle_art_width", "CircleArt::width",
  "n-cell-wide drawing: width n-1 (radius (n-1)/2); n when it starts flush with a slash (radius n/2)",
  assumes=["CellBuffer::bounds replaced by an opaque result (the bounds of the art); the art itself is the empty string in the harness"])
K("Q3.is_subset_of", ["C13"], CM, "check_is_subset_of", "circle_map::is_subset_of",
  "matched <=> subset contained in big_set; unmatched = ascending indices of big_set elements not in subset",
  kind="bounded", timeout=600, timeout_thorough=1200, bound="lists of length <= 2 (thorough: 3) over 4 distinct values (Verus: slice::contains / enumerate have no vstd specification)")
B("Q4.catalogue_circles", ["C13", "C06", "C12"], CM, "bounded_catalogue_circles",
  "Span::endorse / endorse_to_arcs_and_circles / circle_map::endorse_circle_span / CIRCLES_SPAN (real tables)",
  "each of the 22 drawings, anywhere, alone or with unrelated content: one span, endorsed as exactly one circle and nothing else; radius (n-1)/2 or n/2; "
  "extent = the drawing's extent; every character within 2.5 units (1.25 cells) of the circle",
  "22 drawings x offsets (0..6)x(0..4) quick / (0..60)x(0..40) thorough x {alone, with unrelated text}", timeout=900, timeout_thorough=7200)

SPAN = "buffer/cell_buffer/span.rs"
K("A2.span_merge", ["C10", "C04", "C03"], SPAN, "check_span_merge", "Span::can_merge / is_adjacent / merge / merge_no_check",
  "can_merge <=> an adjacent pair of cells; merge = concatenation in order; spans separated by a blank column or row never merge",
  kind="bounded", bound="spans of 3 and 2 cells, all valid cells symbolic", timeout=600)
K("N2.span_bounds_localize", ["C12", "C01", "C06", "C13"], SPAN, "check_span_bounds_localize", "Span::bounds / top_left / new / localize",
  "bounds = per-axis min/max, None iff empty (top_left never reaches its expect on a non-empty span); localize subtracts the top-left cell; "
  "localize(translate(s,d)) = localize(s)", kind="bounded", bound="spans of 3 cells (and the empty span), all valid cells symbolic", timeout=600)
K("A2.span_extract_bounded", ["C10"], SPAN, "check_span_extract_bounded", "Span::is_bounded / hit_cell / extract",
  "inclusive box tests per cell", kind="bounded", bound="spans of 3 cells", timeout=600)

FTREE = "buffer/fragment_buffer/fragment_tree.rs"
B("C16.enclose_tags", ["C16", "C10", "C09", "C04", "C03"], FTREE, "bounded_enclose_tags",
  "FragmentTree::enclose_fragments / enclose_recursive / second_pass_enclose / enclose_deep_first / Fragment::as_css_tag / can_fit (real bodies)",
  "a tag inside a rectangle or circle adds its names to the innermost enclosing shape and is not rendered; inside no shape it stays text; "
  "malformed tags and other text are rendered once, unaffected; every fragment occurs exactly once in the forest (also with overlapping, non-nested shapes) "
  "and FragmentTree::fragments_to_node / into_nodes renders every node of the forest exactly once, at every depth",
  "8 shapes (three boxes nested in each other, sibling box, circle, a circle nested in a box, a box nested in a circle) x 9 placements x 8 contents (tags, plain text, malformed tags, labels that start with a tag) x 4 shape orders = 288 cases; "
  "Kani: the recursive Vec<FragmentTree> with Strings did not finish in 900 s",
  timeout=600)

B("C16.legend_grammar", ["C16"], UTIL, "bounded_legend_grammar", "parser::parse_css_legend (pom grammar)",
  "header variants, 1..3 'ident = {css}' entries (any css without braces, incl. newlines and quotes), separators with/without blanks, trailing blanks: "
  "entries in order; malformed legends answered without panic",
  "4 headers x 3 lengths x 4 identifiers x 6 declarations x 4 separators x 4 trailers = 4608 legends + 5 malformed (pom is outside Kani and Verus)")
B("C17.legend_cut_line_endings", ["C16", "C17", "C01"], CB, "bounded_legend_cut_and_line_endings", "From<&str> for CellBuffer / parse_css_legend / legend_css",
  "the legend is never drawn, the drawing before it is untouched, the rules come out in order, and CRLF input gives the same cells and rules as LF",
  "6 drawings (incl. box-drawing and wide characters) x 5 legends (incl. blank lines inside) x 4 trailing-blank variants x {LF, CRLF}")
B("C16.tag_grammar", ["C16", "C08", "C04"], UTIL, "bounded_tag_grammar", "parser::parse_css_tag", "'{ident(,ident)*}' accepted with its names only when it is the whole text; malformed variants and labels that merely start with a tag rejected", "5 + 17 strings")
B("T6.string_and_cell_buffer", ["C04", "C17", "C10", "C12", "C13"], CB, "bounded_string_and_cell_buffer", "From<&str> for StringBuffer / From<StringBuffer> for CellBuffer",
  "cells = the non-blank characters at the column where their display columns start (wide = 2 columns); LF/CRLF, trailing blanks and blank lines add nothing",
  "first row: all strings of <= 4 (thorough 5) tokens over {a, e-acute, wide CJK, space, -, TAB} x 3 second rows x {LF, CRLF} x 4 trailing-blank variants")

K("C15.celltext_fragment_dispatch", ["C15", "C03", "C04", "C11"], FRAG, "check_fragment_celltext_dispatch",
  "Fragment::scale / FragmentSpan::scale / absolute_position / merge / is_contacting / is_broken on a CellText fragment",
  "a text fragment never becomes or joins geometry: scale gives a Text with the same content anchored at q*s; absolute_position moves the cell; "
  "merge with a line, circle, arc or rect is None in both orders; it contacts no geometric fragment",
  kind="bounded", bound="content fixed to \"é-\" (drawing character inside the text); cells, scale and the geometric fragments symbolic", timeout=300)

K("S2.is_collinear_exact", ["C09", "C06"], LINE, "check_is_collinear_exact", "util::is_collinear", 
  "on the lattice: true <=> the exact (integer) cross product of the three points is zero (sound and complete)",
  file="util.rs", kmod="k9", timeout=600, timeout_thorough=3600,
  assumes=["lattice reduced to 8 cells (quick) / 32 cells (thorough; 128 cells did not finish in 3600 s): completeness holds for all magnitudes (equal real products round equally), "
           "soundness needs products below 2^24"])
B("S1.is_touching_lattice", ["C09", "C06", "C03"], LINE, "bounded_is_touching_lattice", "Line::is_touching / touching_line / contains_point (parry2d Segment::contains_point)",
  "true <=> an end point of one segment lies on the closed segment of the other (exact arithmetic)",
  "all 360,000 ordered pairs of non-degenerate segments between the 25 lattice points of one cell, at the origin and at cell (397,193); "
  "parry's point projection (dot products, division, relative_eq) did not finish in Kani (> 25 min for 4 lines, design phase)")

B("M2.merge_fixpoint", ["C09", "C10", "C01"], "merge.rs", "bounded_merge_recursive_fixpoint", "Merge::merge_recursive / second_pass_merge",
  "for an arbitrary merge table: the result is a fix-point (no earlier item merges with a later one); unmergeable items are kept in order; "
  "1 <= result length <= input length",
  "every merge table over 3 abstract ids (4^9 = 262,144 tables) x 5 id sequences x lengths 3 and 4; Kani on the abstract item type did not finish in 800 s; "
  "the unbounded length / termination clauses are M1, M2 (Verus)")

FB = "buffer/fragment_buffer.rs"
B("C03.rows_dash_bar_plus", ["C03"], FB, "bounded_dash_bar_plus_rows",
  "ASCII_PROPERTIES rows of '-', '|', '+' through Property::fragments / From<PropertyBuffer> for FragmentBuffer / From<Span> for FragmentBuffer",
  "strokes of the centre cell = the specified strokes: '-' k-o; '|' c-w plus a half stub towards an adjacent '-'; '+' a half segment towards each "
  "neighbour that points at it, text when none does",
  "exhaustive: 3 centre characters x all 4^8 = 65,536 neighbour assignments over {space, -, |, +} (the tables are behind once_cell::Lazy: Kani ICE)",
  file="map/ascii_map.rs", timeout=900)
B("S7.no_duplicate_fragment", ["C09"], FB, "bounded_no_duplicate_fragment_in_cell", "FragmentBuffer::add_fragment_to_cell / add_fragment_span_to_cell",
  "an equal fragment span is not stored twice in a cell", "1 scenario (BTreeMap glue)")

B("RN.renderers", ["C11", "C05", "C14", "C02"], FRAG, "bounded_renderers", "From<Line|MarkerLine|Circle|Rect|Arc|Polygon> for Node",
  "numeric attributes are exactly the fields (x1,y1,x2,y2 / cx,cy,r / x,y,width,height,rx / path d / points); classes follow the flags and markers",
  "5^3 coordinate triples x 2 flag values, 7 shapes each (sauron Node construction is beyond Kani)")
B("sink.text_node", ["C02", "C08", "C04", "C15"], FRAG, "bounded_text_node", "From<Text> for Node / From<CellText> for Node / escape_html_text",
  "a text element has x, y and exactly one text child = concatenation of replace_html_char over the characters",
  "all strings of length 1..3 over {<,&,>,\",',a,e-acute,wide CJK,NUL,U+0001,space} (1463 strings)")

# ------------------------------------------------------------------------------------------------
# C01: panic-site inventory (every site in non-test library code must be named here with the obligation
# that guards it; a site that is not listed makes the run undecided - it cannot be silently uncovered)
# ------------------------------------------------------------------------------------------------
PANIC_SITES = {
    ("buffer/cell_buffer.rs", "escape_line", "expect"): (1, "C15.escape_line (bounded): line_parse is repeat(0..) and cannot fail"),
    ("buffer/cell_buffer/cell.rs", "is_intersected", "expect"): (1, "not reachable from the conversion entry points (call scan below)"),
    ("buffer/cell_buffer/cell.rs", "snap_group", "expect"): (1, "not reachable from the conversion entry points (call scan below)"),
    ("buffer/cell_buffer/endorse.rs", "endorse_rounded_rect", "expect"): (1, "RR.is_rounded_rect: (true, radius) always carries Some(radius)"),
    ("buffer/cell_buffer/endorse.rs", "is_rect", "expect"): (4, "RS.is_rect_sound_m0..m2 + FP: the paired indices only name lines"),
    ("buffer/cell_buffer/endorse.rs", "is_rounded_rect", "expect"): (5, "RR.is_rounded_rect (bounded) + FP: pairs name lines, right_angle_arcs names arcs"),
    ("buffer/cell_buffer/span.rs", "endorse_to_arcs_and_circles", "expect"): (1, "N2.span_bounds_localize: bounds is Some for a non-empty span; spans are built non-empty (A2, Span::new)"),
    ("buffer/cell_buffer/span.rs", "top_left", "expect"): (1, "N2.span_bounds_localize"),
    ("buffer/fragment_buffer/fragment.rs", "is_intersecting", "expect"): (3, "not reachable from the conversion entry points (call scan below)"),
    ("buffer/fragment_buffer/fragment/circle.rs", "from", "expect"): (1, "From<Circle> for ConvexPolygon: not reachable from the conversion entry points"),
    ("buffer/fragment_buffer/fragment/line.rs", "heading", "unreachable!"): (1, "C01.line_heading_total"),
    ("buffer/fragment_buffer/fragment/line.rs", "merge_circle", "panic!"): (1, "C14.line_merge_circle"),
    ("buffer/fragment_buffer/fragment/marker_line.rs", "merge_polygon", "panic!"): (1, "merge_polygon has no caller (its call sites in Fragment::merge are commented out; call scan below)"),
    ("buffer/fragment_buffer/fragment/rect.rs", "from", "expect"): (1, "From<Rect> for ConvexPolygon: not reachable from the conversion entry points"),
    ("lib.rs", "to_svg_string_pretty", "expect"): (1, "fmt::Write for String never fails (std, assumed)"),
    ("lib.rs", "to_svg_with_override_size", "expect"): (1, "fmt::Write for String never fails (std, assumed)"),
    ("lib.rs", "to_svg_with_settings", "expect"): (1, "fmt::Write for String never fails (std, assumed)"),
    ("map/circle_map.rs", "CIRCLES_SPAN", "assert_eq!"): (1, "C01.lazy_tables_init (input independent: decided by one forced initialisation)"),
    ("map/circle_map.rs", "DIAMETER_CIRCLE", "assert_eq!"): (1, "C01.lazy_tables_init"),
    ("map/circle_map.rs", "HALF_ARC_SPAN", "assert_eq!"): (4, "C01.lazy_tables_init"),
    ("map/circle_map.rs", "HALF_ARC_SPAN", "expect"): (1, "C01.lazy_tables_init"),
    ("map/circle_map.rs", "QUARTER_ARC_SPAN", "expect"): (1, "C01.lazy_tables_init"),
    ("map/circle_map.rs", "THREE_QUARTERS_ARC_SPAN", "expect"): (1, "C01.lazy_tables_init"),
    ("map/circle_map.rs", "circle_art_to_span", "assert_eq!"): (1, "C01.lazy_tables_init"),
    ("map/circle_map.rs", "width", "expect"): (1, "C01.lazy_tables_init (CircleArt::width is only evaluated on the 22 catalogue drawings)"),
    ("util.rs", "ord", "unreachable!"): (1, "O1.ord + absence of NaN in every contracted geometry function (Kani NaN checks on)"),
}

# functions whose panics are justified by "nobody on the conversion path calls them"
NO_CALLER = ["is_intersected", "snap_group", "is_intersecting", "merge_polygon", "hit"]


def scan_panic_sites(src, o):
    import collections
    import panic_scan
    root = os.path.join(src, SRC)
    found = collections.Counter(panic_scan.scan(root))
    problems = []
    for site, cnt in sorted(found.items()):
        exp = PANIC_SITES.get(site)
        if exp is None:
            problems.append("new panic site %s::%s (%s) is not covered by any obligation" % site)
        elif cnt > exp[0]:
            problems.append("%d more `%s` in %s::%s than the registry covers" % (cnt - exp[0], site[2], site[0], site[1]))
    # call scan: the NO_CALLER functions must not be called from non-test code (other than by each other)
    for r, _d, files in os.walk(root):
        for f in files:
            if not f.endswith(".rs") or f.startswith("test_"):
                continue
            text = panic_scan.strip_tests(open(os.path.join(r, f), encoding="utf-8").read())
            for n, line in enumerate(text.split("\n"), 1):
                code = line.split("//")[0]
                for name in NO_CALLER:
                    for m in re.finditer(r"(\.|::)%s\(" % name, code):
                        if re.search(r"\bfn\s+hit\b", "\n".join(text.split("\n")[max(0, n - 4):n])) and name == "is_intersecting":
                            continue   # Fragment::hit is the only caller of is_intersecting and has no caller itself
                        problems.append("%s:%d calls %s, which may panic" % (os.path.relpath(os.path.join(r, f), root), n, name))
    if problems:
        return False, "; ".join(problems)[:900]
    return True, "%d panic sites in non-test code, all mapped to an obligation; no caller of %s on the conversion path" % (
        sum(found.values()), ", ".join(NO_CALLER))


SCANS["panic_sites"] = scan_panic_sites
S("C01.panic_site_inventory", ["C01"], "panic_sites", "every unwrap / expect / panic! / unreachable! / assert! in non-test library code",
  "each site is named in the registry together with the obligation that guards it; unknown sites or callers make the run undecided", "lib.rs")

B("RB.boxes", ["C05", "C03", "C01"], END, "bounded_boxes",
  "Span::endorse / Contacts::endorse_rects / endorse_rect / endorse_rounded_rect / is_rounded_rect / right_angle_arcs + the tables of + - ~ | : . , ' `",
  "a drawn box (sharp, rounded or wide-rounded corners; each edge '-' or '~'; '|' sides with an optional ':' stretch on either or both sides; optional interior text) "
  "is exactly one rect with the drawn position and size, radius = the radius of its drawn corner arcs, dashed iff any edge or side is; with a stub attached it is not a rect",
  "4 corner styles x 4 top/bottom edge combinations x widths 0..7 x heights 0..4 (thorough 0..60 x 0..30) x 3 offsets x {plain, interior text, ':' stretch left / right / both / first row / last row, stub attached} "
  "(tables behind once_cell::Lazy; 8 symbolic fragments through is_rounded_rect exceed Kani)", timeout=900, timeout_thorough=7200)

B("C01.lazy_tables_init", ["C01", "C13"], CM, "bounded_lazy_tables_init", "every once_cell::Lazy table of map/*.rs",
  "forcing every table neither panics nor trips an assert_eq! / expect inside the initialisers (they take no input)",
  "exhaustive: there is no input to quantify over; one initialisation of all 14 tables")

K("N3.canvas_margin", ["C12"], CB, "check_canvas_margin", "CellBuffer::get_size / Cell::absolute_position / Point::scale",
  "every lattice point of an occupied cell, scaled, lies inside the canvas with one cell of margin on the right and below; scales 0.5, 8, 10, 37.5; cells < 4096",
  timeout=600, assumes=["CellBuffer::bounds replaced by an opaque result"])
B("N2.cellbuffer_bounds", ["C12"], CB, "bounded_cellbuffer_bounds", "CellBuffer::bounds", "per-axis min / max of the occupied cells; None iff empty",
  "all 31 non-empty subsets of 5 cells + 2 empty drawings (BTreeMap iteration)")
B("S7.isolated_characters_once", ["C09"], CB, "bounded_isolated_characters_once",
  "CellBuffer::endorse_to_fragment_spans (Vec<Span> from cells, Span::endorse / re_endorse, Contacts, merge_fragment_spans)",
  "the same fragment is never emitted twice (C09: 'nor the same line twice'), also for characters whose own fragments do not touch each other",
  "every character of ASCII_PROPERTIES and UNICODE_FRAGMENTS x 6 layouts (alone at two places, doubled, stacked, inside a label, two apart)")
B("C01.entry_points_total", ["C01"], CB, "bounded_entry_points_total",
  "to_svg / to_svg_string_pretty / to_svg_string_compressed / to_svg_with_settings / to_svg_with_override_size (whole pipeline, native, overflow checks on)",
  "no panic, a non-empty string is returned",
  "all strings of <= 3 characters (thorough: plus all of 4 characters over the first 16) over 31 characters (zero-width, controls, non-BMP, double-width, quote, backslash, braces, legend and drawing characters, the arc glyph U+2939) "
  "through the compressed entry point, those of <= 2 characters and 13 fixed inputs (legend fragments, 3 bundled diagrams) through all five entry points x scales 0.001, 8, 1e6",
  timeout=600, timeout_thorough=3600)
B("C11.render_scales_linearly", ["C11"], CB, "bounded_render_scales_linearly",
  "to_svg_with_settings (whole pipeline): CellBuffer::get_node_with_size, Fragment::scale, every From<fragment> for Node renderer",
  "the document at scale s has the same elements, in the same order, with the same classes as at scale 1, and every length attribute "
  "(x, y, x1.., cx, cy, r, rx, width, height, points, path data without the arc flags) is s times the value at scale 1 (relative tolerance 1e-3)",
  "38 small diagrams (bullets at either end and mid-line, arrows in 8 directions, double / dashed lines, boxes, rounded outlines with and without stub, circle, arcs, "
  "diagonals, text, box-drawing glyphs) x scales 0.5, 3, 8, 37.5; text inside shapes left out (known finding)")
B("C03.labels_do_not_change_strokes", ["C03", "C04"], CB, "bounded_labels_do_not_change_strokes",
  "CellBuffer::endorse_to_fragment_spans (From<Span> for PropertyBuffer, FragmentBuffer, Contacts, endorse, merge): the whole pipeline up to the fragments",
  "blanking the label characters of a grid leaves the set of stroked points (lines and rect outlines, cut into quarter-unit pieces) unchanged",
  "quick: every grid of 1x5, 2x3 cells over {space, -, |, +, a} that contains a label; thorough: 1x5, 2x3, 3x2 over {space, -, |, +, a, 7} (91 872 grids)", timeout=900)
B("N1.get_size_every_route", ["C12"], CB, "bounded_get_size_every_route", "CellBuffer::get_size / get_node_with_size / From<&str> / DerefMut<Target = BTreeMap>",
  "the canvas follows the cells that are in the buffer now, whichever way they got there (parsed, inserted through the map interface, removed)",
  "5 texts x 64 subsets of 6 inserted cells x {keep, remove the last inserted} x scales 1, 8")
B("N3.arc_catalogue_inside_canvas", ["C12", "C13"], CB, "bounded_arc_catalogue_inside_canvas",
  "QUARTER_ARC_SPAN / HALF_ARC_SPAN / THREE_QUARTERS_ARC_SPAN (lazy tables), Span::endorse, CellBuffer::get_size, Fragment::bounds",
  "every arc drawing of the three catalogues, drawn free-standing, is recognised into fragments whose bounds lie inside the canvas",
  "all (arc, span) entries of the three tables x 3 offsets x scales 1, 8")
B("N3.plain_text_inside_canvas", ["C12"], CB, "bounded_plain_text_inside_canvas", "CellBuffer::get_fragment_spans / get_size / Fragment::bounds",
  "every fragment that comes from the cell map (lines, text incl. wide characters) lies inside the canvas, at scales 0.5, 8, 37.5 "
  "(the complement of the known finding about quoted text)",
  "first row: all strings of <= 5 tokens over {a, e-acute, wide CJK, space, -} x 2 second rows x 3 scales")

B("C11.bounds_commute_with_scale", ["C11", "C16"], FRAG, "bounded_bounds_commute_with_scale", "Fragment::bounds o Fragment::scale (Line, MarkerLine, Circle, Arc, Rect, Polygon)",
  "bounds(scale(f, s)) = scale(bounds(f), s), so enclosure decisions made after scaling do not depend on the scale "
  "(Text is excluded: known finding C11.text_bounds_unscaled_width)",
  "125 coordinate triples x 7 scales x 6 fragment kinds")

B("C14.arrowheads", ["C14"], FB, "bounded_arrowheads", "rows of > < ^ v V in ASCII_PROPERTIES through FragmentBuffer::from(Span) / merge_fragment_spans",
  "one filled triangle; tip on the axis of the adjoining line, beyond its end, at the arrow character's cell; base straddles the axis",
  "8 directions x head variants (v, V) x line lengths 1..4 x 3 offsets = 132 diagrams (tables behind once_cell::Lazy)", file="map/ascii_map.rs")
B("C14.bullets", ["C14"], FB, "bounded_bullets", "rows of * o O in ASCII_PROPERTIES + Line::merge_circle through merge_fragment_spans",
  "exactly one marker line, marker kind filled / open / big open, marked end = centre of the bullet's cell, no circle or text left over",
  "3 bullets x 4 line directions x lengths 2..4 x 2 offsets = 72 diagrams", file="map/ascii_map.rs")
B("C14.rounded_corners", ["C14", "C05"], FB, "bounded_rounded_corners", "rows of . , ' ` in ASCII_PROPERTIES + Arc::center",
  "four arcs; every arc end coincides with an end of an adjoining line; the arc's centre lies on the inner side of the outline",
  "3 corner styles (. and , corners above the sides; . corners one column inside the sides) x widths 1..8 x heights 1..5 x 2 offsets = 240 outlines with a stub attached", file="map/ascii_map.rs")

B("T8.labels_conserved", ["C04", "C13", "C06"], SPAN, "bounded_labels_conserved",
  "CellBuffer::get_fragment_spans / Span::endorse / endorse_to_arcs_and_circles / circle_map::endorse_*_span / Contacts::endorse_rects",
  "whatever endorsement matches (circles, arcs, rects), every label character of the input is shown by exactly one text fragment at its own cell "
  "and no text appears at a cell without a label",
  "the 8 bundled diagrams + 22 catalogue drawings x {whole, upper, lower, left part} x 3 offsets x label on the first / last row + every drawing of the quarter / half / three-quarter arc catalogues x 3 offsets x 3 label positions")

B("C09.straight_runs", ["C09", "C03"], FB, "bounded_straight_runs", "rows of - ~ _ = | : ! / \\ in ASCII_PROPERTIES + Merge::merge_recursive + Line::merge",
  "a straight run is exactly one line spanning the whole run (two for '='), dashed for ~ : !",
  "9 characters x lengths 1..12, 21, 39 (thorough: doubling up to 400) x 2 offsets", file="map/ascii_map.rs", timeout=900, timeout_thorough=3600)
B("C06.arc_center_translation", ["C06", "C05", "C14"], ARC, "bounded_arc_center_translation", "Arc::center / is_aabb_right_angle_arc / absolute_position",
  "centre translated exactly (1e-3) and the right-angle verdict unchanged wherever the arc sits on the page",
  "17 arcs (radius 0.5 and 1, four quadrants, both sweeps, one non right-angle arc) x columns 0..400 x rows 0..40 step 3 (thorough 0..200); "
  "Kani: CBMC over-approximates f32::powf - the obligation failed with a spurious counterexample (corner at (7.5, 43.25)) whose native replay passes")

FSPAN = "buffer/fragment_buffer/fragment_span.rs"
K("C11.fragment_span_scale", ["C11", "C10"], FSPAN, "check_fragment_span_scale", "FragmentSpan::scale",
  "the fragment is scaled, the source span is untouched (whole struct)", kind="bounded", bound="one-cell span, Line fragment; cell, line, scale symbolic", timeout=300)
K("C06.fragment_span_abs", ["C06", "C10"], FSPAN, "check_fragment_span_abs", "FragmentSpan::absolute_position / cells / hit_cell / is_bounded",
  "the fragment is translated, the source span is untouched (whole struct)", kind="bounded", bound="one-cell span, Line fragment; cells and line symbolic", timeout=300)
K("C10.fragment_span_merge", ["C10", "C09", "C04"], FSPAN, "check_fragment_span_merge", "FragmentSpan::merge",
  "Some exactly when Fragment::merge is Some; the fragment is that result; the spans are concatenated in order (no source cell lost)",
  kind="bounded", bound="one-cell spans; cells symbolic", timeout=300,
  assumes=["<Fragment as Merge>::merge replaced by an opaque result (its contract: C03.fragment_merge_dispatch)"])

B("C17.trailing_blanks", ["C17", "C15"], CB, "bounded_trailing_blanks", "From<&str> for CellBuffer (StringBuffer, escape_line, cell filter)",
  "trailing spaces / tabs, with LF or CRLF, change neither the cells nor the quoted texts of a row, also with an odd number of quotes",
  "all rows of <= 4 tokens over {a, \", -, space, wide CJK} x 4 trailing-blank variants x {LF, CRLF}")

B("A3.spans_are_components", ["C10", "C13", "C09", "C03", "C04", "C05"], SPAN, "bounded_spans_are_components", "From<&CellBuffer> for Vec<Span> (Span::new / merge_recursive / can_merge)",
  "the spans are exactly the connected components of the occupied cells under 8-neighbour adjacency: a partition, nothing joined across a blank column or row",
  "exhaustive: all 4096 occupancy patterns of a 4 x 3 grid")

CONT = "buffer/cell_buffer/contacts.rs"
B("G1.contacts_merge", ["C05", "C03", "C10", "C04"], CONT, "bounded_contacts_merge", "Contacts::merge / is_contacting / is_contacting_frag",
  "merge = concatenation (every fragment once, in order) exactly when some fragment of one group contacts some fragment of the other",
  "all 6561 pairs of two-fragment groups from a pool of 9 fragment spans (touching / crossing / far lines, a circle, texts)")
B("G2.endorse_rects_partition", ["C05", "C04", "C03"], CONT, "bounded_endorse_rects_partition", "Contacts::endorse_rects / endorse_rect / span",
  "every group is either replaced by its rect (span = the group's cells) or kept unchanged and in order: a partition",
  "all 31 non-empty selections of 5 groups (a rect, an open outline, five lines, a text group, a single line), both orders")

V("T2.celltext_can_merge", ["C04"], "celltext", "can_merge", "CellText::can_merge",
  "for every content and all valid cells: true <=> same row and one text starts exactly where the other's columns end",
  "buffer/fragment_buffer/fragment/text.rs")
V("T3.celltext_merge_unbounded", ["C04", "C03"], "celltext", "merge", "CellText::merge",
  "for every content: Some <=> can_merge; the merged text starts at the first text's cell and its content is first ++ second "
  "(nothing dropped, duplicated or reordered)", "buffer/fragment_buffer/fragment/text.rs")
V("G2.endorse_rects_count", ["C05", "C04", "C03"], "endorse_rects", "endorse_rects", "Contacts::endorse_rects",
  "for any number of groups: accepted.len() + rejects.len() == contacts.len() (every group is either endorsed or kept)",
  "buffer/cell_buffer/contacts.rs")

K("S1.contains_point_one_cell", ["C09", "C03"], LINE, "check_contains_point_one_cell", "Line::contains_point (parry2d Segment::contains_point)",
  "for every segment and point on the 5 x 5 lattice of one cell at the origin: true <=> the point lies on the closed segment (exact integer arithmetic)",
  kind="bounded", bound="the 25 lattice points of the cell at the origin (symbolic); other positions: S1.is_touching_lattice", kmod="k10", timeout=900, heavy=True)

B("S2.is_collinear_translated", ["C06", "C09"], LINE, "bounded_is_collinear_translated", "util::is_collinear",
  "true <=> exact cross product zero, for small triangles at any position on the page",
  "all 15,625 triples of the 25 lattice points of one cell x 8 page offsets up to (400, 200) cells", file="util.rs")

B("S4.merge_fragment_spans_fixpoint", ["C09", "C03"], FB, "bounded_merge_fragment_spans_fixpoint", "FragmentBuffer::merge_fragment_spans (abs_fragment_spans + FragmentSpan::merge_recursive)",
  "the returned list is a fix-point: no earlier fragment merges with a later one (with the symmetric Line::merge: no two lines of the output are collinear and touching)",
  "all grids 2x4 and 4x2 (390,625 each) and every 7th 3x3 grid (thorough: all 1,953,125) over {space, -, |, +, _}", timeout=1200, timeout_thorough=7200)

B("S1.contains_point_long_lines", ["C06", "C09", "C03", "C05"], LINE, "bounded_contains_point_long_lines", "Line::contains_point (parry2d Segment::contains_point)",
  "horizontal / vertical lines: every lattice point of the line is on it and its lattice neighbour beside it is not, at every page position; "
  "diagonals: the end points are on the line at every page position (interior lattice points of long diagonals: parry is inexact and position dependent, assumed unreachable)",
  "4 directions x lengths 1..16 cells in half-cell steps then up to 60 cells (thorough 400) x every quarter-unit position along the line x 5 page offsets up to (399,199)")

K("G0.fragment_contact_dispatch", ["C05", "C03", "C14"], FRAG, "check_fragment_contact_dispatch", "Fragment::is_contacting",
  "only line-line, line-arc, line-circle and arc-arc pairs can be grouped, each through its own predicate; marker lines, rects and all other pairs never",
  timeout=300, assumes=["Line::is_touching / is_touching_arc / is_touching_circle, Arc::is_touching replaced by opaque results (S1, G0.line_touching_arc_circle, C05.arc_touching)"])
K("G0.line_touching_arc_circle", ["C05", "C14"], LINE, "check_line_touching_arc_circle", "Line::is_touching_arc / is_touching_circle",
  "a line touches an arc iff they share an end point; a circle iff an end point lies strictly inside it", timeout=600,
  assumes=["Line::angle_rad stubbed by any f32 (is_touching_circle computes an unused heading)"])

# ------------------------------------------------------------------------------------------------
# vacuity canaries: every property's run contains one deliberately false obligation per engine it uses
# ------------------------------------------------------------------------------------------------
def _finish_canaries():
    kani_props = sorted({p for o in OBLIGATIONS if o["engine"] == "kani" and not o.get("canary") for p in o["props"]})
    verus_props = sorted({p for o in OBLIGATIONS if o["engine"] == "verus" and not o.get("canary") for p in o["props"]})
    for o in OBLIGATIONS:
        if o["name"] == "text.canary":
            o["props"] = kani_props
        if o["name"] == "M.canary":
            o["props"] = verus_props
    # the separate C18 canary is the same unit as M.canary
    OBLIGATIONS[:] = [o for o in OBLIGATIONS if o["name"] != "C18.canary"]


_finish_canaries()

B("C18.override_size", ["C18"], CB, "bounded_override_size", "CellBuffer::get_node_override_size vs get_node_with_size",
  "root and backdrop carry the overridden size; every other child is identical to the computed-size rendering, also when the size is smaller than the drawing",
  "6 diagrams (empty, text, box, grouped strokes, circle + far box, legend) x 8 switch combinations x 4 sizes")
