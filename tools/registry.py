"""Registry of obligations.  One record per obligation; a property is decided by all records that
list it in `props`.  Engines: kani (full-domain unless kind says bounded), verus (unbounded),
bounded (native stand-in, never counted as proved), scan (syntactic guard).
"""
import os
import re

SRC = "crates/svgbob/src/"

TRUSTED_BASE = [
    "Kani 0.68.0 / CBMC 6.11.0 / CaDiCaL (bit-precise f32, i32, char)",
    "Verus 0.2026.09.13 / Z3 (unbounded, extracted functions; extraction transformations T1-T4 of DESIGN.md 2.1)",
    "rustc / std / alloc as modelled by Kani",
    "dependencies as documented: nalgebra, parry2d, sauron, pom, unicode-width, itertools, once_cell, indexmap",
]

COMMON_ASSUMPTIONS = [
    "coordinates: cells in [0, 2^17)^2, lattice points i/4 with i < 2^20; scale in [2^-10, 2^10] (DESIGN.md 2.3)",
    "map / iterator glue between contracted functions passes values through unchanged (BTreeMap, HashMap, "
    "iterator adapters, once_cell tables are not verified)",
    "std, nalgebra, parry2d, sauron, pom, unicode-width, itertools behave as documented for the arguments svgbob passes",
    "no end-to-end theorem about to_svg: the property is decided on the contracts of the functions that carry it",
]

PROPERTIES = {}
OBLIGATIONS = []


def prop(pid, explanation, assumptions=()):
    PROPERTIES[pid] = {"explanation": explanation, "assumptions": list(assumptions)}


def mod_prefix(mod):
    if mod == "lib.rs":
        return "__verif"
    return mod[:-3].replace("/", "::") + "::__verif"


def K(name, props, mod, h, function, contract, file=None, kind="full-domain", **kw):
    o = {"name": name, "props": props, "engine": "kani", "harness": mod_prefix(mod) + "::k::" + h,
         "function": function, "file": SRC + (file or mod), "contract": contract, "kind": kind}
    o.update(kw)
    OBLIGATIONS.append(o)
    return o


def B(name, props, mod, test, function, contract, bound, file=None, **kw):
    o = {"name": name, "props": props, "engine": "bounded", "test": mod_prefix(mod) + "::b::" + test,
         "function": function, "file": SRC + (file or mod), "contract": contract, "bound": bound,
         "kind": "bounded"}
    o.update(kw)
    OBLIGATIONS.append(o)
    return o


def V(name, props, unit, fn, function, contract, file, **kw):
    o = {"name": name, "props": props, "engine": "verus", "unit": unit, "fn": fn, "function": function,
         "file": SRC + file, "contract": contract, "kind": "unbounded"}
    o.update(kw)
    OBLIGATIONS.append(o)
    return o


def S(name, props, scan, function, contract, file, **kw):
    o = {"name": name, "props": props, "engine": "scan", "scan": scan, "function": function,
         "file": SRC + file, "contract": contract, "kind": "scan"}
    o.update(kw)
    OBLIGATIONS.append(o)
    return o


# ------------------------------------------------------------------------------------------------
# scans
# ------------------------------------------------------------------------------------------------

def run_scan(o, src):
    rec = {"name": o["name"], "function": o["function"], "file": o["file"], "engine": "scan",
           "kind": "scan", "contract": o["contract"], "state": "undecided", "assumes": []}
    fn = SCANS[o["scan"]]
    try:
        ok, detail = fn(src, o)
    except Exception as e:      # a scan that cannot run is undecided, never a violation
        rec["reason"] = "scan error: %r" % (e,)
        return rec
    rec["state"] = "discharged" if ok else "undecided"
    rec["reason"] = detail
    return rec


SCANS = {}

TEXT = "buffer/fragment_buffer/fragment/text.rs"

# ------------------------------------------------------------------------------------------------
# C02 / C08 : sinks
# ------------------------------------------------------------------------------------------------
prop("C02", "Each sink through which input characters reach the output has an escaping contract "
            "over the whole Unicode scalar range; the root element has a contract on tag and attributes.",
     ["sauron-core 0.61.9 renders Leaf::Text and attribute values verbatim and closes every element it opens",
      "f32 Display prints only [0-9.e-] for finite values"])
prop("C08", "Same sink contracts as C02, read as: no markup-significant character leaves a sink unescaped; "
            "identifier character classes exclude markup-significant characters for every char.",
     ["sauron-core 0.61.9 renders Leaf::Text and attribute values verbatim"])

K("text.replace_html_char", ["C02", "C08"], TEXT, "check_replace_html_char", "replace_html_char",
  "for every char c: entity if c in {<,>,&,',\"}; empty iff XML 1.0 cannot represent c; else exactly c")
K("text.canary", ["C02", "C08"], TEXT, "canary_replace_html_char_identity", "replace_html_char",
  "deliberately false: replace_html_char is the identity", canary=True, cover=False)

# ------------------------------------------------------------------------------------------------
# shared obligations (DESIGN.md section 3)
# ------------------------------------------------------------------------------------------------
UTIL = "util.rs"
POINT = "point.rs"
CELL = "buffer/cell_buffer/cell.rs"
GRID = "buffer/cell_buffer/cell/cell_grid.rs"

K("O1.ord", ["C01"], UTIL, "check_ord", "util::ord", "non-NaN => equals partial_cmp, never reaches unreachable!")
K("O1.opt_ord", ["C01"], UTIL, "check_opt_ord", "util::opt_ord", "None < Some; Some/Some as ord")
K("O1.point_cmp", ["C01", "C09"], POINT, "check_point_cmp", "Point::cmp / eq / partial_cmp",
  "row-major (y, x) order on non-NaN points; == is coordinate equality")
K("util.pad", ["C01"], UTIL, "check_pad", "util::pad", "rounds away from zero to an integer, total on finite input")
K("C08.ident_classes", ["C08", "C16"], UTIL, "check_ident_char_classes",
  "parser::alpha_or_underscore / alphanum_or_underscore",
  "for every char: accepted => not markup-significant/whitespace/=,/ and an XML char; ASCII letters, digits, _ accepted")
K("G1.cellgrid_point", ["C06", "C11"], GRID, "check_cellgrid_point", "CellGrid::point / unit_x / unit_y / width / height",
  "= (x/4, y/4) exactly; cell is 1 x 2")
K("G1.cellgrid_names", ["C06"], GRID, "check_cellgrid_names", "CellGrid::a..y / diagonal_length", "named lattice points; diagonal = sqrt 5")
K("G2.cell_corners", ["C06", "C11", "C12"], CELL, "check_cell_corners", "Cell::top_left_most / bottom_right_most / width / height",
  "= (x, 2y), (x+1, 2y+2), lattice")
K("G3.cell_absolute_position", ["C06"], CELL, "check_cell_absolute_position", "Cell::absolute_position / localize_point",
  "exact translation by (x,2y); localize_point is its inverse; abs(c+d) = abs(c)+d")
K("G3.point_add_sub", ["C06"], POINT, "check_point_add_sub", "Point::add / sub", "exact on the lattice, inverse of each other")
K("G4.cell_adjacent", ["C10"], CELL, "check_cell_adjacent", "Cell::is_adjacent", "Chebyshev distance <= 1, symmetric; a gap of one cell separates")
K("G4.cell_localize_bounds", ["C06", "C10", "C12"], CELL, "check_cell_localize_bounds",
  "Cell::localize_cell / Add / Sub / rearrange_bound / is_bounded / cmp", "subtract / inverse / per-axis min-max / inclusive box / row-major order")
K("G4.cell_neighbours", ["C03"], CELL, "check_cell_neighbours", "Cell::top_left..bottom_right", "the eight neighbour offsets")
K("G2.cell_named_points", ["C06", "C03"], CELL, "check_cell_named_points", "Cell::a..y / unit", "origin + k/4 per axis")
K("C11.point_scale", ["C11"], POINT, "check_point_scale", "Point::scale", "both coordinates = IEEE product with s; finite")

LINE = "buffer/fragment_buffer/fragment/line.rs"
K("L1.line_new", ["C03", "C09"], LINE, "check_line_new", "Line::new / new_noswap / sort_reorder_end_points",
  "same two end points, ordered start <= end, flag kept")
K("C11.line_scale", ["C11"], LINE, "check_line_scale", "Line::scale", "4 coordinates = IEEE product with s; is_broken unchanged")
K("C06.line_absolute_position", ["C06"], LINE, "check_line_absolute_position", "Line::absolute_position / localize",
  "exact translation by the cell origin; localize is the inverse")
K("C06.line_predicates", ["C06"], LINE, "check_line_predicates_translation_invariant",
  "Line::is_horizontal/is_vertical/is_aabb_parallel/is_aabb_perpendicular/octant/slope/has_endpoint",
  "p(translate(l, d)) = p(l) for lattice lines and cell offsets (quick: < 16 cells, thorough: < 256 cells)", timeout=300, timeout_thorough=1800)
K("C06.line_slope", ["C06"], LINE, "check_line_slope_translation_invariant", "Line::slope",
  "numerator and denominator of the slope are exact differences, identical after translation (so slope, angle and heading are)",
  timeout=300, timeout_thorough=1800)
K("C06.line_octant", ["C06"], LINE, "check_line_octant_slope_translation_invariant", "Line::octant",
  "translation invariant on the lattice (quick: < 16 cells, thorough: < 256 cells)", timeout=300, timeout_thorough=1800)
K("C01.line_heading_total", ["C01", "C14"], LINE, "check_line_heading_total", "Line::line_angle / heading / Direction::threshold_length",
  "for every f32 returned by angle_rad: line_angle in the closed set, heading never reaches unreachable!",
  assumes=["Line::angle_rad stubbed by any f32 (f32::atan is a foreign function for Kani)"])
K("LM.line_merge", ["C03", "C09"], LINE, "check_line_merge", "Line::merge / can_merge",
  "Some(hull = min start..max end, broken = either) iff is_touching and both is_collinear hold, None otherwise; all finite coordinates",
  assumes=["Line::is_touching / util::is_collinear replaced by opaque fixed results (their meaning on the lattice: S1, S2)"])
K("C14.line_merge_circle", ["C14", "C01"], LINE, "check_line_merge_circle", "Line::merge_circle",
  "never panics; Some(marker line: kind by filled/radius, marked end = centre, far end kept) iff radius <= 0.75 and an end within 0.75*threshold",
  timeout=600, assumes=["Line::angle_rad stubbed by any f32"])
K("N4.line_bounds", ["C12"], LINE, "check_line_bounds", "Line::bounds", "per-axis min / max of the end points")

ARC = "buffer/fragment_buffer/fragment/arc.rs"
CIRCLE = "buffer/fragment_buffer/fragment/circle.rs"
RECT = "buffer/fragment_buffer/fragment/rect.rs"
K("C11.arc_scale", ["C11"], ARC, "check_arc_scale", "Arc::scale", "start, end, radius = IEEE product with s; major/sweep/rotation flags unchanged")
K("C14.arc_ctors", ["C14", "C05"], ARC, "check_arc_ctors", "Arc::new / major / new_with_sweep / sort_reorder_end_points / arcs_to",
  "end points ordered; sweep flipped exactly when swapped; Arc::new(a,b,r) = new_with_sweep(b,a,r,true)")
K("C06.arc_absolute_position", ["C06"], ARC, "check_arc_absolute_position", "Arc::absolute_position",
  "end points translated exactly, radius and flags unchanged, end point order preserved")
K("C05.arc_touching", ["C05", "C12"], ARC, "check_arc_touching", "Arc::is_touching / has_endpoint / bounds", "equalities of end points; bounds = box of the chord")
K("C11.circle_scale", ["C11"], CIRCLE, "check_circle_scale", "Circle::scale", "centre and radius = IEEE product with s; is_filled unchanged")
K("C06.circle_absolute_position", ["C06", "C13"], CIRCLE, "check_circle_absolute_position", "Circle::absolute_position / new",
  "centre translated exactly; radius, fill unchanged")
K("N4.circle_bounds", ["C12"], CIRCLE, "check_circle_bounds", "Circle::bounds", "centre -/+ radius")
K("C11.rect_scale", ["C11"], RECT, "check_rect_scale", "Rect::scale", "corners and Some(radius) = IEEE product with s; None stays None; flags unchanged")
K("L1.rect_ctors", ["C05"], RECT, "check_rect_ctors", "Rect::new / rounded_new / sort_reorder_end_points / width / height / is_rounded",
  "same two corners ordered; radius as given; flags kept")
K("C06.rect_absolute_position", ["C06"], RECT, "check_rect_absolute_position", "Rect::absolute_position", "corners translated exactly; rest unchanged")
K("N4.rect_bounds", ["C12"], RECT, "check_rect_bounds", "Rect::bounds", "box of the corners")
