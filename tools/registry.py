"""Registry of obligations.  One record per obligation; a property is decided by all records that
list it in `props`.  Engines: kani (full-domain unless kind says bounded), verus (unbounded),
bounded (native stand-in, never counted as proved), scan (syntactic guard).
"""
import os
import re

SRC = "crates/svgbob/src/"

TRUSTED_BASE = [
    "Kani 0.68.0 / CBMC 6.11.0 / CaDiCaL (bit-precise f32, i32, char)",
    "Verus 0.2026.09.13 / Z3 (unbounded, extracted functions; extraction transformations T1-T4 of DESIGN.md 2.1)",
    "rustc / std / alloc as modelled by Kani",
    "dependencies as documented: nalgebra, parry2d, sauron, pom, unicode-width, itertools, once_cell, indexmap",
]

COMMON_ASSUMPTIONS = [
    "coordinates: cells in [0, 2^17)^2, lattice points i/4 with i < 2^20; scale in [2^-10, 2^10] (DESIGN.md 2.3)",
    "map / iterator glue between contracted functions passes values through unchanged (BTreeMap, HashMap, "
    "iterator adapters, once_cell tables are not verified)",
    "std, nalgebra, parry2d, sauron, pom, unicode-width, itertools behave as documented for the arguments svgbob passes",
    "no end-to-end theorem about to_svg: the property is decided on the contracts of the functions that carry it",
]

PROPERTIES = {}
OBLIGATIONS = []


def prop(pid, explanation, assumptions=()):
    PROPERTIES[pid] = {"explanation": explanation, "assumptions": list(assumptions)}


def mod_prefix(mod):
    if mod == "lib.rs":
        return "__verif"
    return mod[:-3].replace("/", "::") + "::__verif"


def K(name, props, mod, h, function, contract, file=None, kind="full-domain", **kw):
    o = {"name": name, "props": props, "engine": "kani", "harness": mod_prefix(mod) + "::k::" + h,
         "function": function, "file": SRC + (file or mod), "contract": contract, "kind": kind}
    o.update(kw)
    OBLIGATIONS.append(o)
    return o


def B(name, props, mod, test, function, contract, bound, file=None, **kw):
    o = {"name": name, "props": props, "engine": "bounded", "test": mod_prefix(mod) + "::b::" + test,
         "function": function, "file": SRC + (file or mod), "contract": contract, "bound": bound,
         "kind": "bounded"}
    o.update(kw)
    OBLIGATIONS.append(o)
    return o


def V(name, props, unit, fn, function, contract, file, **kw):
    o = {"name": name, "props": props, "engine": "verus", "unit": unit, "fn": fn, "function": function,
         "file": SRC + file, "contract": contract, "kind": "unbounded"}
    o.update(kw)
    OBLIGATIONS.append(o)
    return o


def S(name, props, scan, function, contract, file, **kw):
    o = {"name": name, "props": props, "engine": "scan", "scan": scan, "function": function,
         "file": SRC + file, "contract": contract, "kind": "scan"}
    o.update(kw)
    OBLIGATIONS.append(o)
    return o


# ------------------------------------------------------------------------------------------------
# scans
# ------------------------------------------------------------------------------------------------

def run_scan(o, src):
    rec = {"name": o["name"], "function": o["function"], "file": o["file"], "engine": "scan",
           "kind": "scan", "contract": o["contract"], "state": "undecided", "assumes": []}
    fn = SCANS[o["scan"]]
    try:
        ok, detail = fn(src, o)
    except Exception as e:      # a scan that cannot run is undecided, never a violation
        rec["reason"] = "scan error: %r" % (e,)
        return rec
    rec["state"] = "discharged" if ok else "undecided"
    rec["reason"] = detail
    return rec


SCANS = {}

TEXT = "buffer/fragment_buffer/fragment/text.rs"

# ------------------------------------------------------------------------------------------------
# C02 / C08 : sinks
# ------------------------------------------------------------------------------------------------
prop("C02", "Each sink through which input characters reach the output has an escaping contract "
            "over the whole Unicode scalar range; the root element has a contract on tag and attributes.",
     ["sauron-core 0.61.9 renders Leaf::Text and attribute values verbatim and closes every element it opens",
      "f32 Display prints only [0-9.e-] for finite values"])
prop("C08", "Same sink contracts as C02, read as: no markup-significant character leaves a sink unescaped; "
            "identifier character classes exclude markup-significant characters for every char.",
     ["sauron-core 0.61.9 renders Leaf::Text and attribute values verbatim"])

K("text.replace_html_char", ["C02", "C08"], TEXT, "check_replace_html_char", "replace_html_char",
  "for every char c: entity if c in {<,>,&,',\"}; empty iff XML 1.0 cannot represent c; else exactly c")
K("text.canary", ["C02", "C08"], TEXT, "canary_replace_html_char_identity", "replace_html_char",
  "deliberately false: replace_html_char is the identity", canary=True, cover=False)
