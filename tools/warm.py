import os, sys
sys.path.insert(0, os.path.dirname(os.path.abspath(__file__)))
import vlib
src, info = vlib.snapshot("warm")
rc, text, wall = vlib.run(["cargo", "kani", "-p", "svgbob", "--lib", "--target-dir", vlib.kani_target_dir(),
                           "-Z", "stubbing", "-Z", "function-contracts", "-Z", "unstable-options",
                           "--only-codegen"], cwd=src, timeout=1800)
print("kani warm build rc=%s wall=%.0fs" % (rc, wall))
rc, text, wall = vlib.run(["cargo", "test", "--offline", "-q", "-p", "svgbob", "--lib", "--no-run"], cwd=src,
                          env={"RUSTFLAGS": "--cfg svgbob_verif", "CARGO_TARGET_DIR": vlib.native_target_dir()},
                          timeout=1800)
print("native warm build rc=%s wall=%.0fs" % (rc, wall))
import shutil
shutil.rmtree(os.path.join(vlib.WORK, "warm"), ignore_errors=True)
