"""Counterexample extraction and native replay.

Kani obligations: the failed harness is re-run with `--concrete-playback=print`; the byte vectors
are stored in a replay file; replaying regenerates the playback `#[test]` in a fresh copy of the
*current* tree and runs it with `cargo kani playback` - natively, without stubs, against the real
functions.

Bounded stand-ins / witnesses: the replay file names a native `#[cfg(svgbob_verif)] #[test]`.
"""
import json
import os
import re
import shutil
import sys
import time

import vlib


def harness_module_file(harness):
    """source file (relative to the crate src dir) into which the contract module is injected"""
    parts = harness.split("::")
    i = parts.index("__verif")
    mods = parts[:i]
    if not mods:
        return "lib.rs"
    return "/".join(mods) + ".rs"


def extract_playback_test(text):
    """Pick the generated unit test of a failing *assertion* (Kani also prints one per cover)."""
    best = None
    for m in re.finditer(r"/// Check for `(\w+)`: ([^\n]*)\n(?:\s*///[^\n]*\n)*\s*(#\[test\]\s*\n\s*fn (kani_concrete_playback_\w+)\(\)\s*\{.*?\n\})",
                         text, re.S):
        kind = m.group(1)
        cand = (m.group(4), m.group(3))
        if kind != "cover":
            return cand
        if best is None:
            best = cand
    return best if best else (None, None)


def parse_concrete_vals(test_src):
    vals = []
    for m in re.finditer(r"vec!\[([0-9,\s]*)\],?\s*$", test_src, re.M):
        body = m.group(1).strip()
        if body == "":
            vals.append([])
        else:
            vals.append([int(x) for x in body.split(",") if x.strip() != ""])
    return vals


def make_replay_deferred(prop, obl, rec):
    """A failed Kani obligation beyond the playback budget of one check run: the replay file names the obligation and
    carries the verifier's failed checks; `./check --replay <file>` extracts and replays the counterexample on demand."""
    os.makedirs(os.path.join(vlib.VERIF, "replays", prop), exist_ok=True)
    path = os.path.join(vlib.VERIF, "replays", prop, obl["name"] + ".json")
    data = {"kind": "kani-playback", "property": prop, "obligation": obl["name"], "harness": obl["harness"],
            "function": obl.get("function"), "source_file": obl.get("file"), "contract": obl.get("contract"),
            "failed_checks": rec.get("failed_checks", []), "why": rec.get("why"),
            "playback_test_name": None, "playback_test": None, "concrete_vals": None,
            "deferred": True, "timeout": obl.get("timeout", 120), "unwind": obl.get("unwind"),
            "verifier_output": "counterexample extraction deferred (playback budget of this run used up by other failed "
                               "obligations); failed checks: %s" % rec.get("why")}
    with open(path, "w") as f:
        json.dump(data, f, indent=1)
        f.write("\n")
    rec["replay"] = path
    rec["replayed_natively"] = False
    return path


def make_replay(prop, obl, rec, src, logdir):
    """Fill rec['replay'] (path) and rec['replayed_natively'] for a failed Kani obligation."""
    os.makedirs(os.path.join(vlib.VERIF, "replays", prop), exist_ok=True)
    path = os.path.join(vlib.VERIF, "replays", prop, obl["name"] + ".json")
    log = os.path.join(logdir, "playback-%s.log" % obl["name"])
    cmd_extra = ["-Z", "concrete-playback", "--concrete-playback=print"]
    rc, text, wall, _ = vlib.run_kani(src, [obl["harness"]], log,
                                      harness_timeout=max(obl.get("timeout", 120) * 2, 240),
                                      extra=cmd_extra, unwind=obl.get("unwind"), jobs=1,
                                      thorough=bool(rec.get("thorough")))
    tname, tsrc = extract_playback_test(text)
    verifier_tail = "\n".join(l for l in text.splitlines() if not l.startswith("warning") and
                              "unstable" not in l and l.strip() not in ("", "|"))[-4000:]
    data = {
        "kind": "kani-playback",
        "property": prop,
        "obligation": obl["name"],
        "harness": obl["harness"],
        "function": obl.get("function"),
        "source_file": obl.get("file"),
        "contract": obl.get("contract"),
        "failed_checks": rec.get("failed_checks", []),
        "why": rec.get("why"),
        "playback_test_name": tname,
        "playback_test": tsrc,
        "concrete_vals": parse_concrete_vals(tsrc) if tsrc else None,
        "verifier_output": verifier_tail,
    }
    with open(path, "w") as f:
        json.dump(data, f, indent=1)
        f.write("\n")
    rec["replay"] = path
    rec["replayed_natively"] = False
    if tsrc:
        ok, out = run_playback(data, src_existing=src, logdir=logdir)
        rec["replayed_natively"] = ok
        data["native_replay"] = {"reproduced": ok, "output_tail": out[-1500:]}
        with open(path, "w") as f:
            json.dump(data, f, indent=1)
            f.write("\n")
    return path


def run_playback(data, src_existing=None, logdir=None):
    """Run the recorded playback test natively. Returns (reproduced?, output)."""
    if src_existing:
        src = src_existing
    else:
        src, _info = vlib.snapshot("replay")
    modfile = harness_module_file(data["harness"])
    target = os.path.join(src, vlib.CRATE_SRC, modfile)
    hpath = data["harness"].split("::__verif::", 1)[1]
    test_src = data["playback_test"]
    # the generated test refers to the harness by its bare name; qualify it
    hname = hpath.split("::")[-1]
    test_src = re.sub(r"concrete_playback_run\(\s*concrete_vals\s*,\s*%s\s*\)" % re.escape(hname),
                      "concrete_playback_run(concrete_vals, super::__verif::%s)" % hpath, test_src)
    marker = "// __verif_playback %s" % data["playback_test_name"]
    with open(target) as f:
        cur = f.read()
    if marker not in cur:
        with open(target, "a") as f:
            f.write("\n%s\n#[cfg(kani)]\n#[allow(warnings)]\nmod __verif_playback_%s {\n%s\n}\n" % (
                marker, data["playback_test_name"], test_src))
    cmd = ["cargo", "kani", "playback", "-Z", "concrete-playback", "-p", "svgbob", "--lib", "--",
           data["playback_test_name"], "--nocapture"]
    log = os.path.join(logdir or os.path.join(vlib.WORK, "replay"), "playback-run-%s.log" % data["obligation"])
    os.makedirs(os.path.dirname(log), exist_ok=True)
    pbdir = vlib.kani_target_dir() + "-playback"
    os.makedirs(pbdir, exist_ok=True)
    with vlib.target_lock(pbdir):
        vlib.run(["cargo", "clean", "--offline", "-p", "svgbob"], cwd=src, timeout=300, env={"CARGO_TARGET_DIR": pbdir})
        rc, text, wall = vlib.run(cmd, cwd=src, timeout=1200, out=log, env={"CARGO_TARGET_DIR": pbdir})
    m = re.search(r"test result: (\w+)\. (\d+) passed; (\d+) failed", text)
    reproduced = bool(m and int(m.group(3)) >= 1)
    return reproduced, text


def make_bounded_replay(prop, obl, rec, text):
    os.makedirs(os.path.join(vlib.VERIF, "replays", prop), exist_ok=True)
    path = os.path.join(vlib.VERIF, "replays", prop, obl["name"] + ".json")
    w = re.search(r"BOUNDED-WITNESS (.*)", text)
    tail = "\n".join(text.splitlines()[-40:])
    data = {"kind": "native-test", "property": prop, "obligation": obl["name"], "test": obl["test"],
            "function": obl.get("function"), "source_file": obl.get("file"),
            "contract": obl.get("contract"), "witness": w.group(1) if w else None,
            "verifier_output": tail}
    with open(path, "w") as f:
        json.dump(data, f, indent=1)
        f.write("\n")
    rec["replay"] = path
    rec["replayed_natively"] = True   # the stand-in *is* a native run of the real code
    return path


def run_native_test(test, src=None, tier="quick", log=None, extra_env=None):
    fresh = src is None
    if src is None:
        src, _ = vlib.snapshot("replay")
    env = {"RUSTFLAGS": "--cfg svgbob_verif", "CARGO_TARGET_DIR": vlib.native_target_dir(),
           "VERIF_TIER": tier}
    if extra_env:
        env.update(extra_env)
    cmd = ["cargo", "test", "--offline", "-q", "-p", "svgbob", "--lib", "--", test, "--exact",
           "--nocapture", "--test-threads", "1"]
    with vlib.target_lock(vlib.native_target_dir()):
        # always rebuild the crate from this snapshot: another check may have built a different tree
        vlib.run(["cargo", "clean", "--offline", "-p", "svgbob"], cwd=src, env=env, timeout=300)
        rc, text, wall = vlib.run(cmd, cwd=src, env=env, timeout=1800, out=log)
    m = re.search(r"test result: (\w+)\. (\d+) passed; (\d+) failed", text)
    if not m or (int(m.group(2)) + int(m.group(3))) == 0:
        return None, text        # did not run
    return int(m.group(3)) >= 1, text


def cli_replay(path):
    data = json.load(open(path))
    prop = data.get("property", "?")
    if data["kind"] == "kani-playback" and data.get("deferred") and not data.get("playback_test"):
        # extraction was deferred by the check run: do it now, on the current tree
        src, _ = vlib.snapshot("replay")
        logdir = os.path.join(vlib.WORK, "replay", "logs")
        os.makedirs(logdir, exist_ok=True)
        obl = {"name": data["obligation"], "harness": data["harness"], "function": data.get("function"),
               "file": data.get("source_file"), "contract": data.get("contract"), "timeout": data.get("timeout", 120),
               "unwind": data.get("unwind")}
        rec = {"failed_checks": data.get("failed_checks"), "why": data.get("why")}
        make_replay(prop, obl, rec, src, logdir)
        data = json.load(open(path))
        if rec.get("replayed_natively"):
            print("VIOLATION property=%s replay=%s" % (prop, path))
            return 1
    if data["kind"] == "kani-playback":
        if not data.get("playback_test"):
            print("replay file carries no counterexample (verifier gave none); obligation %s" % data["obligation"])
            print(data.get("verifier_output", "")[-2000:])
            print("VIOLATION property=%s replay=%s no-failing-input-found" % (prop, path))
            return 1
        ok, out = run_playback(data)
        print(out[-3000:])
    else:
        ok, out = run_native_test(data["test"])
        print(out[-3000:])
        if ok is None:
            print("UNDECIDED replay did not run")
            return 2
    if ok:
        print("VIOLATION property=%s replay=%s" % (prop, path))
        return 1
    print("replay passes on the current tree (obligation %s not violated by this input)" % data["obligation"])
    return 0
