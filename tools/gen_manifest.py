"""Regenerate MANIFEST.json from the registry (claimed = properties that have obligations)."""
import json, os, sys
sys.path.insert(0, os.path.dirname(os.path.abspath(__file__)))
import registry

VERIF = os.path.dirname(os.path.dirname(os.path.abspath(__file__)))
props = [json.loads(l) for l in open(os.path.join(VERIF, "properties.jsonl"))]
NA = {
    "C07": "quantifies over processes with different hash seeds, thread schedules on first use of the lazy tables and conversion "
           "histories: Kani has no threads and cannot compile a reachable once_cell::Lazy, Verus has no specification of HashMap "
           "iteration order; no contract on a function within reach can state it (DESIGN.md C07)",
    "C19": "about the svgbob_cli process (clap argv parsing, files, stdout, exit status): neither verifier models process exit, "
           "the file system or clap; main has no function-level decomposition a contract could be attached to (DESIGN.md C19)",
    "C20": "async axum/tokio server, request histories and concurrent clients: no async/thread support in Kani, no model of axum in "
           "Verus; the handler is two library calls with nothing of svgbob's to put under contract (DESIGN.md C20)",
}
counts = {}
for o in registry.OBLIGATIONS:
    if o.get("canary"):
        continue   # the deliberately false vacuity canaries are not obligations of any property
    for p in o["props"]:
        counts.setdefault(p, {}).setdefault(o["engine"] if o.get("kind") != "bounded" or o["engine"] != "kani" else "kani-bounded", 0)
        k = o["engine"] if not (o["engine"] == "kani" and o.get("kind") == "bounded") else "kani-bounded"
        counts[p][k] = counts[p].get(k, 0) + 1

m = {
    "version": 1,
    "setup_cmd": "./setup.sh",
    "hooks": {
        "guard": "svgbob_verif",
        "enable": "no source hook is committed: every check copies /repo's working tree and appends "
                  "`#[cfg(any(kani, svgbob_verif))] #[path=\"/verif/contracts/<file>.rs\"] pub(crate) mod __verif;` to the copied source "
                  "files (cargo kani sets cfg(kani); bounded stand-ins use RUSTFLAGS=--cfg svgbob_verif); Verus units are extracted "
                  "from the same copy",
        "baseline_off_cmd": "cd /repo && cargo test --workspace --no-fail-fast --offline",
        "source_commits": [],
        "add_only": True,
    },
    "engines": [
        {"name": "kani", "path": "tools/vlib.py", "serves_properties": sorted(p for p in counts if counts[p].get("kani") or counts[p].get("kani-bounded")),
         "kind_free_text": "Kani 0.68 / CBMC 6.11: contract obligations (pre/post predicate pairs, callee contracts as stubs) on the real functions"},
        {"name": "verus", "path": "tools/extract.py", "serves_properties": sorted(p for p in counts if counts[p].get("verus")),
         "kind_free_text": "Verus 0.2026.09.13: unbounded loop / recursion contracts on functions extracted mechanically on every run"},
        {"name": "bounded", "path": "check", "serves_properties": sorted(p for p in counts if counts[p].get("bounded")),
         "kind_free_text": "bounded native stand-ins of function-level contracts where both verifiers are out of reach (labelled, never counted as proved)"},
    ],
    "checks": [],
    "notes": "Contract-based deductive verification; see DESIGN.md. exit 0 held / 1 VIOLATION / 2 undecided (never a VIOLATION).",
    "not_applicable": [],
}
for p in props:
    pid = p["id"]
    if pid in registry.PROPERTIES and pid in counts:
        c = counts[pid]
        m["checks"].append({
            "property_id": pid,
            "quick_cmd": "./check %s --tier quick" % pid,
            "thorough_cmd": "./check %s --tier thorough" % pid,
            "evidence_file": "evidence/%s.json" % pid,
            "replay_cmd_template": "./check --replay {path}",
            "engine": "+".join(k for k in ("kani", "verus", "kani-bounded", "bounded", "scan") if c.get(k)),
            "level_claimed": {
                "category": "proof" if (c.get("kani", 0) + c.get("verus", 0)) else "exploration",
                "text": ("contracts on the functions that carry the property (%s); proof obligations: %d Kani full-domain/modular + %d Verus unbounded; "
                         "labelled bounded stand-ins (not counted as proved): %d Kani-bounded + %d native" % (
                             registry.PROPERTIES[pid]["explanation"], c.get("kani", 0), c.get("verus", 0), c.get("kani-bounded", 0), c.get("bounded", 0)))
                        + ("" if (c.get("kani", 0) + c.get("verus", 0)) else
                           " - NO obligation of this property is discharged by a deductive verifier: every function it depends on (str::lines, the pom grammars, "
                           "BTreeMap glue) is outside Kani and Verus; the function contracts are checked by bounded-exhaustive native stand-ins only, which is "
                           "exploration of the stated finite domains, not proof"),
                "design_ref": "DESIGN.md section 4, " + pid,
            },
            "level_note": "assumed: " + "; ".join(registry.PROPERTIES[pid]["assumptions"] + registry.COMMON_ASSUMPTIONS[:2]),
            "technique": "contract-based deductive verification of the real code (Kani function contracts as pre/post pairs with stubs, Verus on extracted functions)",
        })
    else:
        m["not_applicable"].append({"property_id": pid, "reason": NA.get(pid, "no obligation built yet")})
json.dump(m, open(os.path.join(VERIF, "MANIFEST.json"), "w"), indent=1)
print("claimed:", [c["property_id"] for c in m["checks"]])
print("n/a:", [c["property_id"] for c in m["not_applicable"]])
for p in sorted(counts): print(p, counts[p])
