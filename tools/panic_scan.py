"""Inventory of panic sites in the non-test library code of crates/svgbob/src (C01)."""
import os, re, sys

TOKENS = [r"\.unwrap\(\)", r"\.expect\(", r"\bpanic!\(", r"\bunreachable!\(", r"\bassert!\(", r"\bassert_eq!\(",
          r"\bassert_ne!\(", r"\bunimplemented!\(", r"\btodo!\("]
TOK_RE = re.compile("|".join("(%s)" % t for t in TOKENS))


def strip_tests(text):
    """blank out `#[cfg(test)] mod x { ... }` blocks (keeps line numbers)"""
    out = text
    for m in re.finditer(r"#\[cfg\(test\)\]\s*(pub\s+)?mod\s+\w+\s*\{", text):
        i = m.end() - 1
        depth, j = 0, i
        while j < len(text):
            if text[j] == "{":
                depth += 1
            elif text[j] == "}":
                depth -= 1
                if depth == 0:
                    break
            j += 1
        seg = text[m.start():j + 1]
        out = out.replace(seg, re.sub(r"[^\n]", " ", seg))
    return out


def scan(src_root):
    sites = []
    for r, _d, files in os.walk(src_root):
        for f in sorted(files):
            if not f.endswith(".rs") or f.startswith("test_"):
                continue
            p = os.path.join(r, f)
            rel = os.path.relpath(p, src_root)
            text = strip_tests(open(p, encoding="utf-8").read())
            fn = ""
            for n, line in enumerate(text.split("\n"), 1):
                code = line.split("//")[0]
                m = re.search(r"\bfn\s+(\w+)", code)
                if m:
                    fn = m.group(1)
                m2 = re.search(r"\bstatic\s+(\w+)", code)
                if m2:
                    fn = m2.group(1)
                for t in TOK_RE.finditer(code):
                    sites.append((rel, fn, t.group(0).strip(".(")))
    return sites


if __name__ == "__main__":
    from collections import Counter
    c = Counter(scan(sys.argv[1]))
    for k, v in sorted(c.items()):
        print(v, *k)
