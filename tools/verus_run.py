"""Verus obligations: mechanical extraction of the real functions + single-file `verus`."""
import os
import re
import json
import time

import vlib


def run_obligations(prop, tier, src, vobls, logdir, undecided):
    import extract
    out = {}
    units = {}
    for o in vobls:
        units.setdefault(o["unit"], []).append(o)
    for unit, obls in units.items():
        res = extract.run_unit(unit, src, logdir)
        for o in obls:
            rec = {"name": o["name"], "function": o.get("function", ""), "file": o.get("file", ""),
                   "engine": "verus", "kind": o.get("kind", "unbounded"), "contract": o.get("contract", ""),
                   "canary": bool(o.get("canary")), "assumes": o.get("assumes", []) + res.get("assumes", []),
                   "solver": "z3", "state": "undecided"}
            f = o.get("file")
            if f and os.path.exists(os.path.join(vlib.REPO, f)):
                rec["file_sha256"] = vlib.sha256_file(os.path.join(vlib.REPO, f))
            rec["solver_time_s"] = res.get("time_s")
            rec["verus_functions"] = res.get("functions")
            if res["state"] == "undecided":
                rec["state"] = "undecided"
                rec["reason"] = res.get("reason")
            else:
                # per-function verdict
                bad = [e for e in res.get("errors", []) if o["fn"] in e.get("fn", "") or not e.get("fn")]
                if o.get("canary"):
                    rec["state"] = "failed" if bad else "discharged"
                elif bad:
                    rec["state"] = "failed"
                    rec["why"] = "; ".join(e["msg"] for e in bad)[:600]
                    make_verus_replay(prop, o, rec, res)
                else:
                    rec["state"] = "discharged"
            out[o["name"]] = rec
    return out


def make_verus_replay(prop, o, rec, res):
    os.makedirs(os.path.join(vlib.VERIF, "replays", prop), exist_ok=True)
    path = os.path.join(vlib.VERIF, "replays", prop, o["name"] + ".json")
    data = {"kind": "kani-playback", "property": prop, "obligation": o["name"], "harness": "verus:" + o["unit"],
            "function": o.get("function"), "source_file": o.get("file"), "contract": o.get("contract"),
            "playback_test": None, "playback_test_name": None, "concrete_vals": None,
            "why": rec.get("why"), "verifier_output": res.get("raw", "")[-4000:]}
    with open(path, "w") as f:
        json.dump(data, f, indent=1)
        f.write("\n")
    rec["replay"] = path
    rec["replayed_natively"] = False
